#!/bin/sh
# usage: evalseed.sh <patch> <property> [more properties...]
# applies a patch to a scratch worktree of /repo (never to /repo itself, so that checks running
# elsewhere are not disturbed), runs the quick checks against it, removes the worktree.
P="$1"; shift
WT=/tmp/evalseed_wt.$$
git -C /repo worktree add -q --detach "$WT" "${EVAL_BASE:-HEAD}" || { echo "cannot create worktree"; exit 2; }
trap 'git -C /repo worktree remove --force "$WT" >/dev/null 2>&1; rm -f /tmp/evalseed.$$.log' EXIT INT TERM
git -C "$WT" apply "$P" || { echo "patch does not apply"; exit 2; }
for PROP in "$@"; do
  VERIF_REPO="$WT" /verif/run.sh check "$PROP" quick > /tmp/evalseed.$$.log 2>&1; rc=$?
  echo "[$PROP] exit=$rc"; grep -E "^violation class|VIOLATION-CLASS|INFRA|BUILD" /tmp/evalseed.$$.log | cut -c1-260 | head -6
done
