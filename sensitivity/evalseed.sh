#!/bin/sh
# usage: evalseed.sh <patch> <property> [more properties...]  -- applies a patch to /repo, runs the quick checks, reverts.
P="$1"; shift
cd /repo || exit 2
if [ -n "$(git status --porcelain --untracked-files=no)" ]; then echo "/repo dirty"; exit 2; fi
git apply "$P" || { echo "patch does not apply"; exit 2; }
for PROP in "$@"; do
  /verif/run.sh check "$PROP" quick > /tmp/evalseed.$$.log 2>&1; rc=$?
  echo "[$PROP] exit=$rc"; grep -E "^violation class|VIOLATION-CLASS|INFRA|BUILD" /tmp/evalseed.$$.log | cut -c1-260 | head -6
done
git -C /repo checkout -- .
rm -f /tmp/evalseed.$$.log
