#!/bin/sh
# usage: mut.sh <patch> <property> [runs]   -- applies a patch to /repo, runs the quick check, reverts.
P="$1"; PROP="$2"; RUNS="${3:-}"
cd /repo || exit 2
if [ -n "$(git status --porcelain --untracked-files=no)" ]; then echo "/repo dirty"; exit 2; fi
git apply "$P" || { echo "patch does not apply"; exit 2; }
if [ -n "$RUNS" ]; then export VERIF_RUNS="$RUNS"; fi
VERIF_DIR_OVERRIDE= /verif/run.sh check "$PROP" quick > /tmp/mut.$$.log 2>&1; rc=$?
git -C /repo checkout -- . 
grep -E "VIOLATION|violation class|INFRA|BUILD|KNOWN|runs \(" /tmp/mut.$$.log | cut -c1-400
rm -f /tmp/mut.$$.log
echo "exit=$rc"
