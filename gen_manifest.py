#!/usr/bin/env python3
"""Generates MANIFEST.json from the table below (kept in one place so it stays valid)."""
import json, subprocess
G_NOTE = "Interleavings at hook granularity (executor/run-loop hand-off, stream operations, state lock); node bodies, branch conditions and handlers are harness stubs computing provenance terms; reference model is my reading of the statement; plans are small (<=7 nodes, depth <=2)."
claimed = {
 "C01": ("graphsim", "Seeded search over random Pregel plans (fan-out/in, branches with scripted outcome sequences, cycles, nested graphs, step limits) x schedules; every run is compared with an independent reference superstep interpreter (result or error class, execution multiset, step bound, nested plan also run alone).", G_NOTE),
 "C02": ("graphsim", "Seeded search over random AllPredecessor graphs and Workflows (control/data/combined dependencies, mappings, branches incl. several on one node, skip cascades, nested graphs) x schedules; compared with an independent trigger/skip reference interpreter (result, execution multiset, at-most-once).", G_NOTE),
 "C04": ("graphsim", "Seeded search over plans in all modes with drawn native-paradigm subsets, chunkings, stream/value state handlers, keys and mappings; the same compiled object is called through Invoke, Stream, Collect and Transform; every result must equal the reference model and the other paradigms; with an injected failing node every paradigm must fail. Two known findings (duplicate-key fan-in, missing map key) are exercised in their own configurations.", G_NOTE),
 "C05": ("graphsim", "Seeded search over interrupted histories: interrupt-before/after sets at every nesting level, nodes asking for interrupt-and-rerun, resume through a bytes-only store with a freshly compiled runnable, paradigm changes between calls; differential oracle against the uninterrupted run of the same plan (reference model): output, execution multiset, state counter, bounded number of calls.", G_NOTE + " Plans whose uninterrupted run hits the step limit are not compared (the limit counts per call)."),
 "C06": ("graphsim", "The interrupted histories of C05 (plus histories without checkpoint id and with failing store writes) observed by monitors over the recorded history: interrupt-before nodes start only after a reporting interrupt was resumed, nothing is submitted after an interrupt-after node was collected, reported node lists match the log at every nesting level, checkpoint written iff interrupt returned.", G_NOTE),
 "C10": ("graphsim", "Seeded search over handler supplies (global, several graph-level options, designated by key and path), plans with parallel nodes and nested graphs, handler tasks that read or close their stream copies, and schedules; oracle over the recorded callback events: exactly one start-type and one end-type per handler and execution unit, right RunInfo, designated handlers only at their node, payloads, undisturbed data flow.", G_NOTE + " Tool-call callbacks are covered by the C17 engine only as far as the run's result; plus 200 (quick) / 3000 (thorough) race-detector runs (Mode B: kernel synchronisation hidden from the detector, reports count only if both accesses are in eino code)."),
 "C11": ("graphsim", "Seeded search over stateful plans: every handler and ProcessState body performs read-yield-write inside the framework's lock and passes a mutual-exclusion monitor; oracle: monitor, lost-update counter, fresh state per run and per stateful nested execution, pre < node < post, model equality; state across interrupt/resume is checked by the C05 histories.", G_NOTE),
 "C13": ("graphsim", "Seeded fault injection: 1-2 failing nodes at any depth (error sentinel, panic, error item mid-stream), context cancellation at a drawn scheduler step, step limit; oracle: errors.As/Is recover the sentinel, ErrExceedMaxSteps, context.Canceled; message names the node path; panic value in the error; no escaped panic, no process crash, no hang.", G_NOTE + " Tool and forwarder panics are exercised by C17 and C08."),
 "C17": ("agentsim", "Seeded search over tool sets (invokable-only, streamable-only, both), assistant messages with 1-5 calls (repeats, unknown names), failing/panicking tools, direct and in-graph use, Invoke and Stream, and schedules that decide the tool completion order; oracle: N answers in call order with ids and outputs, concat(Stream)=Invoke, failures and unknown names reported, each call executed once with its call id, no crash.", "Tools are harness tasks that yield before answering; interleavings at hook granularity (tool goroutine spawn, WaitGroup, stream operations)."),
 "C18": ("agentsim", "Seeded search over scripted model behaviours (tool-calling turns, chunkings incl. tool-calls-first and text-first, endless scripts), tool sets, return-directly sets and step limits; Generate and Stream are both run; oracle: the message history each model call sees, the returned message, the step-limit error, Generate = concat(Stream), against a small reference model of the loop.", "The chat model is a scripted stub (the simulated remote party); the default tool-call checker is only combined with chunkings it is documented to support."),
 "C09": ("graphsim", "Seeded search over schedules that interleave 2-4 caller tasks on ONE compiled object (graphs/workflows with state, branches, nested graphs; in 3 of 10 runs a bundled agent: the ReAct agent or the host multi-agent, with Generate and Stream callers); oracle: every call equals the reference model for its own input (= its solo result), state objects are per run, lambda options and callback handlers only see their own run, the agent's model history per caller is its own.", G_NOTE + " The data-race clause is decided by 300 (quick) / 6000 (thorough) additional runs of a race-detector build of the same simulator in which the kernel's own synchronisation is hidden from the detector (runtime.RaceDisable), so two accesses the program does not order are reported although the simulator ran them one after the other; a report counts only if both accesses are in eino code, and is minimised and replayed like any other violation. Only executed paths are covered. 3 in 10 runs call a bundled agent instead of a generated graph: the ReAct agent (Generate and Stream callers, shared option slice and shared input slice with spare capacity) or the host multi-agent (2-3 specialists of all four kinds, scripted host model, per-caller hand-off callbacks)."),
 "C19": ("graphsim", "Seeded search over streaming runs (Stream/Transform) whose caller reads to the end or closes after 0-3 chunks, with callback handlers that read all/part/none of their copies; the kernel keeps scheduling after the call until nothing can run; oracle for runs inside the property's quantifier (reference model: result, every value has a consumer): no goroutine created by the run is alive, no producer blocked in Send, and (lifecycle events) every stream and stream copy created during the run was closed by its reader or read to its end.", G_NOTE),
 "C03": ("graphsim", "Seeded search over schedules of executor goroutines and run loop (hook points inside the task manager hand-off) on plans with >=3 parallel nodes in batch and eager mode; oracle: model equality on every schedule, push/hand-off/collect conservation per run loop, deadlock detector, no return before executions finished, step budget.", G_NOTE),
 "C08": ("streamsim", "Seeded search over random stream operator trees (pipe/array/copy/merge/convert), producer and consumer tasks and schedules under the deterministic kernel; per-reader sequence algebra checked over the recorded history; deadlock, leftover-goroutine and writer-told monitors.",
         "Interleavings at hook granularity (every send/recv/close/once/select); multi-ready select decided by a seam; data races below hook granularity are looked for by 200 (quick) / 3000 (thorough) race-detector runs (Mode B)."),
}
NA = {
 "C07": "pure function of the construction sequence and the values: no schedule, clock, fault or history for a simulator to control (DESIGN.md section 7)",
 "C12": "serialisation round trip is a pure function of the value; the store clause is exercised end to end by C05",
 "C14": "concatenation is a pure function of the chunk sequence",
 "C15": "field mapping is a pure function of mapping set, types and value",
 "C16": "option routing is a pure function of options and graph; the cross-call leak clause is exercised by C09",
 "C20": "rejection of ill-formed constructions is a pure function of the Add*/Compile sequence",
}
PENDING = {}
for pid in ["C01","C02","C03","C04","C05","C06","C09","C10","C11","C13","C17","C18","C19"]:
    if pid not in claimed:
        PENDING[pid] = "not claimed yet: the simulation check for this property is not built at this commit (see DESIGN.md section 12)"
hooks = subprocess.run(["git","-C","/repo","log","--format=%H %s","--grep=^verif hooks"],capture_output=True,text=True).stdout.strip().splitlines()
m = {
 "version": 1,
 "setup_cmd": "./run.sh build",
 "hooks": {"guard": "verif (Go build tag)", "enable": "go build -tags verif (done by /verif/run.sh for every check; the harness module /verif/sim replaces github.com/cloudwego/eino by /repo)",
           "baseline_off_cmd": "cd /repo && go test -vet=off -count=1 ./...",
           "source_commits": [h.split()[0] for h in hooks], "add_only": True},
 "engines": [
   {"name":"kernel","path":"sim/kernel","serves_properties":sorted(claimed),"kind_free_text":"deterministic scheduler: real goroutines parked at hook points, released one at a time when a stop-the-world goroutine snapshot shows the process quiescent; every choice from one recorded tape"},
   {"name":"graphsim","path":"sim/graphsim","serves_properties":[p for p in sorted(claimed) if claimed[p][0]=="graphsim"],"kind_free_text":"random plan generator (Pregel/DAG/Workflow, nesting, state, streams), eino graph builder with recording harness lambdas, independent reference model, oracles"},
   {"name":"agentsim","path":"sim/agentsim","serves_properties":["C17","C18"],"kind_free_text":"ToolsNode and ReAct agent with simulated tools and a scripted chat model as tasks; reference model of the loop"},
   {"name":"streamsim","path":"sim/streamsim","serves_properties":["C08"],"kind_free_text":"random stream operator trees with producer/consumer tasks and a sequence-algebra oracle"},
 ],
 "checks": [],
 "not_applicable": [{"property_id":k,"reason":v} for k,v in sorted({**NA, **PENDING}.items())],
 "notes": "Technique: deterministic simulation with fault injection. Exit 0 held / 1 VIOLATION / 2 infrastructure. See DESIGN.md.",
}
for pid,(eng,text,note) in sorted(claimed.items()):
    m["checks"].append({"property_id":pid,"quick_cmd":f"./run.sh check {pid} quick","thorough_cmd":f"./run.sh check {pid} thorough",
      "evidence_file":f"evidence/{pid}.json","replay_cmd_template":"./run.sh replay {path}","engine":eng,
      "level_claimed":{"category":"exploration","text":text,"design_ref":"DESIGN.md section 6 "+pid},
      "level_note":note,"technique":"deterministic simulation with fault injection (seeded schedule and fault search, replayable tapes)"})
json.dump(m, open("MANIFEST.json","w"), indent=1)
print("ok", len(m["checks"]), "checks")
