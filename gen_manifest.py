#!/usr/bin/env python3
"""Generates MANIFEST.json from the table below (kept in one place so it stays valid)."""
import json, subprocess
G_NOTE = "Interleavings at hook granularity (executor/run-loop hand-off, stream operations, state lock); node bodies, branch conditions and handlers are harness stubs computing provenance terms; reference model is my reading of the statement; plans are small (<=7 nodes, depth <=2)."
claimed = {
 "C01": ("graphsim", "Seeded search over random Pregel plans (fan-out/in, branches with scripted outcome sequences, cycles, nested graphs, step limits) x schedules; every run is compared with an independent reference superstep interpreter (result or error class, execution multiset, step bound, nested plan also run alone).", G_NOTE),
 "C02": ("graphsim", "Seeded search over random AllPredecessor graphs and Workflows (control/data/combined dependencies, mappings, branches incl. several on one node, skip cascades, nested graphs) x schedules; compared with an independent trigger/skip reference interpreter (result, execution multiset, at-most-once).", G_NOTE),
 "C03": ("graphsim", "Seeded search over schedules of executor goroutines and run loop (hook points inside the task manager hand-off) on plans with >=3 parallel nodes in batch and eager mode; oracle: model equality on every schedule, push/hand-off/collect conservation per run loop, deadlock detector, no return before executions finished, step budget.", G_NOTE),
 "C08": ("streamsim", "Seeded search over random stream operator trees (pipe/array/copy/merge/convert), producer and consumer tasks and schedules under the deterministic kernel; per-reader sequence algebra checked over the recorded history; deadlock, leftover-goroutine and writer-told monitors.",
         "Interleavings at hook granularity (every send/recv/close/once/select); multi-ready select decided by a seam; data races below hook granularity are not visible in Mode A."),
}
NA = {
 "C07": "pure function of the construction sequence and the values: no schedule, clock, fault or history for a simulator to control (DESIGN.md section 7)",
 "C12": "serialisation round trip is a pure function of the value; the store clause is exercised end to end by C05",
 "C14": "concatenation is a pure function of the chunk sequence",
 "C15": "field mapping is a pure function of mapping set, types and value",
 "C16": "option routing is a pure function of options and graph; the cross-call leak clause is exercised by C09",
 "C20": "rejection of ill-formed constructions is a pure function of the Add*/Compile sequence",
}
PENDING = {}
for pid in ["C01","C02","C03","C04","C05","C06","C09","C10","C11","C13","C17","C18","C19"]:
    if pid not in claimed:
        PENDING[pid] = "not claimed yet: the simulation check for this property is not built at this commit (see DESIGN.md section 12)"
hooks = subprocess.run(["git","-C","/repo","log","--format=%H %s","--grep=^verif hooks"],capture_output=True,text=True).stdout.strip().splitlines()
m = {
 "version": 1,
 "setup_cmd": "./run.sh build",
 "hooks": {"guard": "verif (Go build tag)", "enable": "go build -tags verif (done by /verif/run.sh for every check; the harness module /verif/sim replaces github.com/cloudwego/eino by /repo)",
           "baseline_off_cmd": "cd /repo && go test -vet=off -count=1 ./...",
           "source_commits": [h.split()[0] for h in hooks], "add_only": True},
 "engines": [
   {"name":"kernel","path":"sim/kernel","serves_properties":sorted(claimed),"kind_free_text":"deterministic scheduler: real goroutines parked at hook points, released one at a time when a stop-the-world goroutine snapshot shows the process quiescent; every choice from one recorded tape"},
   {"name":"graphsim","path":"sim/graphsim","serves_properties":[p for p in sorted(claimed) if claimed[p][0]=="graphsim"],"kind_free_text":"random plan generator (Pregel/DAG/Workflow, nesting, state, streams), eino graph builder with recording harness lambdas, independent reference model, oracles"},
   {"name":"streamsim","path":"sim/streamsim","serves_properties":["C08"],"kind_free_text":"random stream operator trees with producer/consumer tasks and a sequence-algebra oracle"},
 ],
 "checks": [],
 "not_applicable": [{"property_id":k,"reason":v} for k,v in sorted({**NA, **PENDING}.items())],
 "notes": "Technique: deterministic simulation with fault injection. Exit 0 held / 1 VIOLATION / 2 infrastructure. See DESIGN.md.",
}
for pid,(eng,text,note) in sorted(claimed.items()):
    m["checks"].append({"property_id":pid,"quick_cmd":f"./run.sh check {pid} quick","thorough_cmd":f"./run.sh check {pid} thorough",
      "evidence_file":f"evidence/{pid}.json","replay_cmd_template":"./run.sh replay {path}","engine":eng,
      "level_claimed":{"category":"exploration","text":text,"design_ref":"DESIGN.md section 6 "+pid},
      "level_note":note,"technique":"deterministic simulation with fault injection (seeded schedule and fault search, replayable tapes)"})
json.dump(m, open("MANIFEST.json","w"), indent=1)
print("ok", len(m["checks"]), "checks")
