#!/bin/sh
# usage: run.sh check <property> <quick|thorough> | replay <file> | dettest <property> [n] [procs] | build
# Rebuilds the simulator from /verif/sim against /repo's current working tree with the
# hooks enabled (-tags verif), then runs the requested command. Exit 0 = held, 1 = VIOLATION,
# 2 = infrastructure trouble (build failure, non-replayable result, watchdog).
VERIF_DIR="$(cd "$(dirname "$0")" && pwd)"
export VERIF_DIR
export GOFLAGS=-mod=mod GOPROXY=off GOSUMDB=off GOTOOLCHAIN=local
cd "$VERIF_DIR/sim" || exit 2
mkdir -p "$VERIF_DIR/bin"
BIN="$VERIF_DIR/bin/vsim.$$"
cp /repo/go.sum go.sum 2>/dev/null
if ! go build -tags verif -o "$BIN" ./cmd/vsim >"$VERIF_DIR/bin/build.$$.log" 2>&1; then
  echo "BUILD FAILED (exit 2, not a violation):"; cat "$VERIF_DIR/bin/build.$$.log"; rm -f "$VERIF_DIR/bin/build.$$.log" "$BIN"; exit 2
fi
rm -f "$VERIF_DIR/bin/build.$$.log"
trap 'rm -f "$BIN"' EXIT INT TERM
cd "$VERIF_DIR" || exit 2
cmd="$1"; shift
case "$cmd" in
  check)   "$BIN" check -prop "$1" -tier "${2:-${VERIF_TIER:-quick}}"; rc=$? ;;
  replay)  "$BIN" replay -file "$1"; rc=$? ;;
  dettest) "$BIN" dettest -prop "$1" -n "${2:-200}" -procs "${3:-30}"; rc=$? ;;
  build)   cp "$BIN" "$VERIF_DIR/bin/vsim"; rc=0 ;;
  *) echo "usage: run.sh check|replay|dettest|build ..."; rc=2 ;;
esac
rm -f "$BIN"
exit $rc
