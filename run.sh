#!/bin/sh
# usage: run.sh check <property> <quick|thorough> | replay <file> | dettest <property> [n] [procs] | build
# Rebuilds the simulator from /verif/sim against /repo's current working tree with the
# hooks enabled (-tags verif), then runs the requested command. Exit 0 = held, 1 = VIOLATION,
# 2 = infrastructure trouble (build failure, non-replayable result, watchdog).
VERIF_DIR="$(cd "$(dirname "$0")" && pwd)"
export VERIF_DIR
export GOFLAGS=-mod=mod GOPROXY=off GOSUMDB=off GOTOOLCHAIN=local
cd "$VERIF_DIR/sim" || exit 2
mkdir -p "$VERIF_DIR/bin"
BIN="$VERIF_DIR/bin/vsim.$$"
LOG="$VERIF_DIR/bin/build.$$.log"
SCRATCH="$VERIF_DIR/bin/repo.auto"
MODF="$VERIF_DIR/sim/go.auto.mod"
# Mode B: the harness packages are built without race instrumentation (their state is only
# ever touched by the one running task; instrumenting it would bury the log in reports about
# the harness itself); the library, the standard library and the kernel package are instrumented
NORACE_HARNESS="-gcflags=verifsim/core=-race=false -gcflags=verifsim/graphsim=-race=false -gcflags=verifsim/agentsim=-race=false -gcflags=verifsim/streamsim=-race=false -gcflags=verifsim/cmd/vsim=-race=false"
cleanup() { rm -rf "$LOG" "$BIN" "$BIN.race" "$VERIF_DIR/bin/autoyield.$$"; }
# the race-detector build (Mode B) is needed by the checks that decide a data-race clause and by replays of their findings
WANT_RACE=0
case "$1:$2" in
  check:*|replay:*|build:*) WANT_RACE=1 ;;
esac
trap cleanup EXIT INT TERM
# (VERIF_REPO lets the sensitivity scripts point a check at a scratch copy of the library with a
# deliberate change applied; the registered commands never set it)
REPO="${VERIF_REPO:-/repo}"
cp "$REPO/go.sum" go.sum 2>/dev/null
fail() { echo "BUILD FAILED (exit 2, not a violation):"; cat "$LOG"; exit 2; }
if [ "${VERIF_AUTOYIELD:-1}" = "1" ]; then
  # build from a scratch copy of /repo's working tree in which yield points were inserted
  # after every waking operation (see sim/cmd/autoyield); the copy is deleted after the build
  # (one fixed scratch path, serialised by a lock: keeps the Go build cache effective and small)
  go build -o "$VERIF_DIR/bin/autoyield.$$" ./cmd/autoyield >"$LOG" 2>&1 || fail
  (
    flock 9
    mkdir -p "$SCRATCH"
    rsync -a --delete --exclude .git "$REPO/" "$SCRATCH/" || exit 1
    "$VERIF_DIR/bin/autoyield.$$" "$SCRATCH" || exit 1
    sed "s#=> /repo#=> $SCRATCH#" go.mod > "$MODF"; cp go.sum "${MODF%.mod}.sum"
    go build -trimpath -modfile="$MODF" -tags verif -o "$BIN" ./cmd/vsim || exit 1
    if [ "$WANT_RACE" = "1" ]; then
      go build -trimpath -race $NORACE_HARNESS -modfile="$MODF" -tags verif -o "$BIN.race" ./cmd/vsim || exit 1
    fi
    rm -rf "$SCRATCH" "$MODF" "${MODF%.mod}.sum"
  ) 9>"$VERIF_DIR/bin/.buildlock" >"$LOG" 2>&1 || fail
else
  go build -trimpath -tags verif -o "$BIN" ./cmd/vsim >"$LOG" 2>&1 || fail
  if [ "$WANT_RACE" = "1" ]; then
    go build -trimpath -race $NORACE_HARNESS -tags verif -o "$BIN.race" ./cmd/vsim >"$LOG" 2>&1 || fail
  fi
fi
if [ "$WANT_RACE" = "1" ]; then VSIM_RACE_BIN="$BIN.race"; export VSIM_RACE_BIN; fi
rm -f "$LOG"
cd "$VERIF_DIR" || exit 2
cmd="$1"; shift
case "$cmd" in
  check)   "$BIN" check -prop "$1" -tier "${2:-${VERIF_TIER:-quick}}"; rc=$? ;;
  replay)  "$BIN" replay -file "$1"; rc=$? ;;
  dettest) "$BIN" dettest -prop "$1" -n "${2:-200}" -procs "${3:-30}"; rc=$? ;;
  build)   cp "$BIN" "$VERIF_DIR/bin/vsim"; cp "$BIN.race" "$VERIF_DIR/bin/vsim.race"; rc=0 ;;
  *) echo "usage: run.sh check|replay|dettest|build ..."; rc=2 ;;
esac
exit $rc
