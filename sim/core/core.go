// Package core holds what every engine shares: outcomes, violations, profiles.
package core

import (
	"fmt"
	"sort"

	"verifsim/kernel"
)

// Violation is one oracle failure. Class is a stable string used for minimisation and
// for matching known findings; Msg is free text.
type Violation struct {
	Class string `json:"class"`
	Msg   string `json:"msg"`
}

// Outcome is the result of one simulated run.
type Outcome struct {
	Violations []Violation    `json:"violations,omitempty"`
	Infra      string         `json:"infra,omitempty"` // infrastructure trouble: never a violation
	Res        *kernel.Result `json:"-"`
	PlanHash   string         `json:"plan_hash"`
	Sample     string         `json:"sample,omitempty"` // rendered plan
	Stats      map[string]int `json:"stats,omitempty"`  // faults fired, probes
	Nontrivial bool           `json:"nontrivial"`
	Trace      []string       `json:"trace,omitempty"` // readable schedule (only when asked)
	Log        []string       `json:"log,omitempty"`   // harness log (only when asked)
	Events     []string       `json:"events,omitempty"`
}

func (o *Outcome) Violate(class, msg string) {
	for _, v := range o.Violations {
		if v.Class == class {
			return
		}
	}
	if len(msg) > 4000 {
		msg = msg[:4000] + "…"
	}
	o.Violations = append(o.Violations, Violation{class, msg})
}

func (o *Outcome) Stat(k string, n int) {
	if o.Stats == nil {
		o.Stats = map[string]int{}
	}
	o.Stats[k] += n
}

// Classes returns the sorted violation classes.
func (o *Outcome) Classes() []string {
	var c []string
	for _, v := range o.Violations {
		c = append(c, v.Class)
	}
	sort.Strings(c)
	return c
}

// Opts are per-run options given by the runner.
type Opts struct {
	KeepTrace bool
	Tier      string
}

// Profile is one property's check: a workload generator, the engine and its oracles.
type Profile struct {
	ID     string
	Engine string
	Run    func(t *kernel.Tape, o Opts) *Outcome
	// Quick and Thorough are the number of runs of each tier (per seed).
	Quick, Thorough int
	ThoroughSeeds   int
	// RaceQuick / RaceThorough: additional runs executed by the race-detector build
	// (Mode B: kernel synchronisation hidden from the detector)
	RaceQuick, RaceThorough int
	Rule                    string
	Real, Stub              []string
	Faults                  []string
}

var Profiles = map[string]*Profile{}

// AltRunners lets another engine contribute scenarios to a property's profile.
var AltRunners = map[string]func(t *kernel.Tape, o Opts) *Outcome{}

func Register(p *Profile) { Profiles[p.ID] = p }

// FinishKernel folds the kernel result into the outcome (deadlock, budget, hazards, stuck).
func FinishKernel(o *Outcome, s *kernel.Sim, r *kernel.Result, prefix string) {
	o.Res = r
	if r.Stuck != "" {
		o.Infra = "never quiescent: " + r.Stuck
	}
	if len(r.Hazards) > 0 {
		o.Infra = "determinism hazard: " + r.Hazards[0]
	}
	if r.Budget {
		// bounded liveness: the budget is far (>40x) above what any run on the unchanged tree
		// needs, so running into it means the run does not terminate (livelock)
		what := "step budget exceeded"
		if r.WallBudget {
			what = "wall-clock budget of one run exceeded after " + fmt.Sprint(r.Steps) + " steps"
		}
		o.Violate(prefix+"/no-termination-within-step-budget", what+"; still parked: "+join(s.ParkedSites()))
	}
	o.Nontrivial = r.Choices >= 1 && r.MaxLive >= 2
	if s.KeepTrace {
		o.Trace = s.Trace()
		o.Log = s.Logs()
		for _, e := range s.Events() {
			o.Events = append(o.Events, fmt.Sprintf("%d|%s|%s|%s|%d", e.Step, e.Task, e.Site, e.Detail, e.Obj))
		}
	}
}

func join(x []string) string {
	out := ""
	for i, s := range x {
		if i > 0 {
			out += ", "
		}
		out += s
	}
	return out
}

// HashString returns a short stable hash of s.
func HashString(s string) string {
	var h uint64 = 1469598103934665603
	for i := 0; i < len(s); i++ {
		h ^= uint64(s[i])
		h *= 1099511628211
	}
	const hexd = "0123456789abcdef"
	b := make([]byte, 16)
	for i := 15; i >= 0; i-- {
		b[i] = hexd[h&15]
		h >>= 4
	}
	return string(b)
}

// OpenStreams evaluates the stream lifecycle events of a run: it returns a description of
// every stream (or stream copy) that was created during the run and was neither closed by
// its reader nor read to its end.
func OpenStreams(evs []kernel.Event) []string {
	type st struct {
		created  bool
		done     bool
		task     string
		children int
		childOK  map[string]bool
	}
	objs := map[int]*st{}
	get := func(o int) *st {
		if objs[o] == nil {
			objs[o] = &st{childOK: map[string]bool{}}
		}
		return objs[o]
	}
	for _, e := range evs {
		switch e.Site {
		case "stream.new":
			s := get(e.Obj)
			s.created, s.task = true, e.Task
		case "stream.eof", "stream.closeRecv":
			get(e.Obj).done = true
		case "copy.new":
			s := get(e.Obj)
			s.created, s.task = true, e.Task
			n := 0
			for _, c := range e.Detail {
				n = n*10 + int(c-'0')
			}
			s.children = n
		case "copy.eof", "copy.close":
			get(e.Obj).childOK[e.Detail] = true
		}
	}
	var out []string
	var ids []int
	for id := range objs {
		ids = append(ids, id)
	}
	sort.Ints(ids)
	for _, id := range ids {
		s := objs[id]
		if !s.created {
			continue
		}
		if s.children > 0 {
			for i := 0; i < s.children; i++ {
				k := ""
				for d := i; ; d /= 10 {
					k = string(rune('0'+d%10)) + k
					if d < 10 {
						break
					}
				}
				if !s.childOK[k] {
					out = append(out, "copy #"+itoa(id)+" (made by "+s.task+"): child "+k+" of "+itoa(s.children)+" neither closed nor drained")
				}
			}
		} else if !s.done {
			out = append(out, "stream #"+itoa(id)+" (made by "+s.task+") neither closed by its reader nor drained")
		}
	}
	return out
}

func itoa(i int) string {
	if i == 0 {
		return "0"
	}
	s := ""
	for ; i > 0; i /= 10 {
		s = string(rune('0'+i%10)) + s
	}
	return s
}
