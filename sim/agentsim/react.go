package agentsim

import (
	"context"
	"errors"
	"fmt"
	"io"
	"sort"
	"strings"

	"github.com/cloudwego/eino/callbacks"
	"github.com/cloudwego/eino/components/model"
	"github.com/cloudwego/eino/compose"
	"github.com/cloudwego/eino/flow/agent"
	"github.com/cloudwego/eino/flow/agent/react"
	"github.com/cloudwego/eino/schema"

	"verifsim/core"
	"verifsim/kernel"
)

// turn is one scripted assistant message.
type turn struct {
	Content string
	Calls   []callPlan
}

type simModel struct {
	env    *aenv
	script []turn
	loop   bool // after the script, keep repeating the last tool-calling turn (runs into the step limit)
	cut    int
	pipe   bool
	// strict: the first non-empty chunk carries the tool calls (what the default checker needs)
	strict bool
	yields int
}

func (m *simModel) WithTools(tools []*schema.ToolInfo) (model.ToolCallingChatModel, error) {
	return m, nil
}

func (m *simModel) turnFor(ctx context.Context, in []*schema.Message) turn {
	e := m.env
	tag := tagOf(ctx)
	k := e.modelCalls[tag]
	e.modelCalls[tag] = k + 1
	e.modelSeen[tag] = append(e.modelSeen[tag], msgsCanon(in))
	e.s.Log(fmt.Sprintf("model %s call %d sees %d messages", tag, k, len(in)))
	for i := 0; i < m.yields; i++ {
		e.s.Yield("model")
	}
	if k < len(m.script) {
		return m.script[k]
	}
	last := m.script[len(m.script)-1]
	if !m.loop {
		return turn{Content: "done"}
	}
	// fresh ids for every repetition
	t := turn{Content: last.Content}
	for i, c := range last.Calls {
		t.Calls = append(t.Calls, callPlan{Name: c.Name, Args: c.Args, ID: fmt.Sprintf("k%d.%d", k, i)})
	}
	return t
}

func (t turn) message() *schema.Message {
	m := schema.AssistantMessage(t.Content, nil)
	for i, c := range t.Calls {
		idx := i
		m.ToolCalls = append(m.ToolCalls, schema.ToolCall{Index: &idx, ID: c.ID, Function: schema.FunctionCall{Name: c.Name, Arguments: c.Args}})
	}
	return m
}

func (m *simModel) Generate(ctx context.Context, in []*schema.Message, _ ...model.Option) (*schema.Message, error) {
	return m.turnFor(ctx, in).message(), nil
}

// chunks cuts the assistant message into stream chunks.
func (m *simModel) chunks(t turn) []*schema.Message {
	var out []*schema.Message
	content := cut(t.Content, m.cut)
	var first *schema.Message
	if len(t.Calls) > 0 {
		first = &schema.Message{Role: schema.Assistant}
		var rest []*schema.Message
		for i, c := range t.Calls {
			idx := i
			h := len(c.Args) / 2
			if m.cut == 0 {
				h = len(c.Args)
			}
			first.ToolCalls = append(first.ToolCalls, schema.ToolCall{Index: &idx, ID: c.ID, Function: schema.FunctionCall{Name: c.Name, Arguments: c.Args[:h]}})
			if h < len(c.Args) {
				idx2 := i
				rest = append(rest, &schema.Message{Role: schema.Assistant, ToolCalls: []schema.ToolCall{{Index: &idx2, Function: schema.FunctionCall{Arguments: c.Args[h:]}}}})
			}
		}
		if m.strict {
			if m.cut == 2 {
				out = append(out, &schema.Message{Role: schema.Assistant}) // leading empty chunk
			}
			out = append(out, first)
			out = append(out, rest...)
			for _, c := range content {
				out = append(out, &schema.Message{Role: schema.Assistant, Content: c})
			}
			return out
		}
		// tool calls after the text (needs a checker that reads the whole stream)
		for _, c := range content {
			out = append(out, &schema.Message{Role: schema.Assistant, Content: c})
		}
		out = append(out, first)
		out = append(out, rest...)
		return out
	}
	for _, c := range content {
		out = append(out, &schema.Message{Role: schema.Assistant, Content: c})
	}
	if len(out) == 0 {
		out = append(out, &schema.Message{Role: schema.Assistant})
	}
	return out
}

func (m *simModel) Stream(ctx context.Context, in []*schema.Message, _ ...model.Option) (*schema.StreamReader[*schema.Message], error) {
	t := m.turnFor(ctx, in)
	chunks := m.chunks(t)
	if !m.pipe {
		return schema.StreamReaderFromArray(chunks), nil
	}
	e := m.env
	sr, sw := schema.Pipe[*schema.Message](m.cut % 2)
	e.prodN++
	e.s.Go(fmt.Sprintf("modelprod:%s#%d", tagOf(ctx), e.prodN), func() {
		defer sw.Close()
		for _, c := range chunks {
			if sw.Send(c, nil) {
				e.probes["model_stream_closed_early"]++
				return
			}
		}
	})
	return sr, nil
}

// wholeStreamChecker reads the whole model output: any chunk with tool calls means "call tools".
func wholeStreamChecker(_ context.Context, sr *schema.StreamReader[*schema.Message]) (bool, error) {
	defer sr.Close()
	has := false
	for {
		msg, err := sr.Recv()
		if err == io.EOF {
			return has, nil
		}
		if err != nil {
			return false, err
		}
		if len(msg.ToolCalls) > 0 {
			has = true
		}
	}
}

type reactPlan struct {
	specs    []*toolSpec
	script   []turn
	loop     bool
	maxStep  int
	direct   map[string]struct{}
	strict   bool
	failing  bool
	modifier bool   // a MessageModifier that filters its argument in place
	suffix   string // what the tools append to their answers for the run the expectation is made for
}

func drawReact(t *kernel.Tape) *reactPlan {
	p := &reactPlan{specs: drawTools(t, 1+t.Plan(3)), direct: map[string]struct{}{}}
	for _, sp := range p.specs {
		sp.Yields = t.Plan(2)
	}
	turns := t.Plan(4) // tool-calling turns
	for k := 0; k < turns; k++ {
		tn := turn{Content: fmt.Sprintf("m%d", k)}
		if t.PlanBool(30) {
			tn.Content = ""
		}
		nc := 1 + t.Plan(3)
		for i := 0; i < nc; i++ {
			tn.Calls = append(tn.Calls, callPlan{Name: p.specs[t.Plan(len(p.specs))].Name, Args: fmt.Sprintf(`{"a":"a%d%d"}`, k, i), ID: fmt.Sprintf("k%d.%d", k, i)})
		}
		p.script = append(p.script, tn)
	}
	if turns > 0 && t.PlanBool(20) {
		p.loop = true
	} else {
		p.script = append(p.script, turn{Content: fmt.Sprintf("final%d", turns)})
	}
	switch t.Plan(4) {
	case 0:
		p.maxStep = 0
	default:
		p.maxStep = 2 + t.Plan(8)
	}
	if t.PlanBool(40) {
		p.direct[p.specs[t.Plan(len(p.specs))].Name] = struct{}{}
		if t.PlanBool(50) {
			p.direct[p.specs[t.Plan(len(p.specs))].Name] = struct{}{} // possibly a second return-directly tool
		}
	}
	p.strict = t.PlanBool(50)
	p.modifier = t.PlanBool(25)
	if turns > 0 && t.PlanBool(10) {
		// one failing tool call
		c := p.script[t.Plan(turns)].Calls[0]
		for _, sp := range p.specs {
			if sp.Name == c.Name {
				sp.Fail[c.Args] = 1 + t.Plan(2)
				p.failing = true
			}
		}
	}
	// some calls are answered with the empty string
	for _, tn := range p.script {
		for _, c := range tn.Calls {
			for _, sp := range p.specs {
				if sp.Name == c.Name && sp.Fail[c.Args] == 0 && t.PlanBool(6) {
					sp.Empty[c.Args] = true
				}
			}
		}
	}
	return p
}

// expectation of the reference model of the agent loop
type reactExpect struct {
	err     string // "", "max-steps", "tool-failure"
	final   string // canonical final message
	history []string
}

func (p *reactPlan) expect(input []*schema.Message) *reactExpect {
	ex := &reactExpect{}
	max := p.maxStep
	nodes := 2
	if len(p.direct) > 0 {
		nodes = 3
	}
	if max == 0 {
		max = nodes + 10
	}
	hist := append([]*schema.Message(nil), input...)
	step := 0
	for k := 0; ; k++ {
		if step >= max {
			ex.err = "max-steps"
			return ex
		}
		ex.history = append(ex.history, msgsCanon(p.modified(hist)))
		var tn turn
		switch {
		case k < len(p.script):
			tn = p.script[k]
		case p.loop:
			last := p.script[len(p.script)-1]
			tn = turn{Content: last.Content}
			for i, c := range last.Calls {
				tn.Calls = append(tn.Calls, callPlan{Name: c.Name, Args: c.Args, ID: fmt.Sprintf("k%d.%d", k, i)})
			}
		default:
			tn = turn{Content: "done"}
		}
		am := tn.message()
		for i := range am.ToolCalls {
			am.ToolCalls[i].Index = nil
		}
		step++ // the model ran
		if len(tn.Calls) == 0 {
			ex.final = msgCanon(am)
			return ex
		}
		hist = append(hist, am)
		if step >= max {
			ex.err = "max-steps"
			return ex
		}
		step++ // the tools ran
		var results []*schema.Message
		directID := ""
		for _, c := range tn.Calls {
			for _, sp := range p.specs {
				if sp.Name == c.Name && sp.Fail[c.Args] != 0 {
					ex.err = "tool-failure"
				}
			}
			results = append(results, schema.ToolMessage(expectedContent(p.specs, c.Name, c.Args, p.suffix), c.ID))
			if _, ok := p.direct[c.Name]; ok && directID == "" {
				directID = c.ID
			}
		}
		if ex.err != "" {
			return ex
		}
		if directID != "" {
			if step >= max {
				ex.err = "max-steps"
				return ex
			}
			step++ // direct_return ran
			for _, r := range results {
				if r.ToolCallID == directID {
					ex.final = msgCanon(r)
				}
			}
			return ex
		}
		hist = append(hist, results...)
	}
}

// modified models the configured MessageModifier (pure version).
func (p *reactPlan) modified(hist []*schema.Message) []*schema.Message {
	if !p.modifier {
		return hist
	}
	var out []*schema.Message
	nTool := 0
	for _, m := range hist {
		if m.Role == schema.Tool {
			nTool++
			if nTool%2 == 0 {
				continue
			}
		}
		out = append(out, m)
	}
	return out
}

// inPlaceModifier is a MessageModifier written with the usual in-place filter idiom: it may
// scribble over the slice it is given (it gets a copy of the history); it drops every second
// tool message from what the model sees and blanks the tail of its argument.
func inPlaceModifier(ctx context.Context, in []*schema.Message) []*schema.Message {
	out := in[:0]
	nTool := 0
	for _, m := range in {
		if m.Role == schema.Tool {
			nTool++
			if nTool%2 == 0 {
				continue
			}
		}
		out = append(out, m)
	}
	for i := len(out); i < len(in); i++ {
		in[i] = nil
	}
	return out
}

func stripIndex(m *schema.Message) *schema.Message {
	if m == nil {
		return nil
	}
	c := *m
	c.ToolCalls = append([]schema.ToolCall(nil), m.ToolCalls...)
	for i := range c.ToolCalls {
		c.ToolCalls[i].Index = nil
	}
	return &c
}

// runC18: the ReAct agent alternates model and tools faithfully and stops.
func runC18(t *kernel.Tape, opt core.Opts) *core.Outcome {
	o := &core.Outcome{}
	p := drawReact(t)
	mcut, mpipe, myields := t.Plan(4), t.PlanBool(50), t.Plan(2)
	order := t.Plan(2) // which of Generate / Stream is called first
	o.Sample = fmt.Sprintf("tools=%s script=%v loop=%v maxStep=%d direct=%v strictChunks=%v failing=%v modifier=%v cut=%d pipe=%v first=%d", specsStr(p.specs), p.script, p.loop, p.maxStep, keys(p.direct), p.strict, p.failing, p.modifier, mcut, mpipe, order)
	o.PlanHash = core.HashString(o.Sample)
	input := []*schema.Message{schema.UserMessage("hello")}
	ex := p.expect(input)

	s := kernel.New(t, 200)
	defer s.Close()
	s.KeepTrace = opt.KeepTrace
	env := newEnv(s)
	mdl := &simModel{env: env, script: p.script, loop: p.loop, cut: mcut, pipe: mpipe, strict: p.strict, yields: myields}
	cfg := &react.AgentConfig{ToolCallingModel: mdl, ToolsConfig: compose.ToolsNodeConfig{Tools: env.build(p.specs)}, MaxStep: p.maxStep, ToolReturnDirectly: p.direct}
	if !p.strict {
		cfg.StreamToolCallChecker = wholeStreamChecker
	}
	if p.modifier {
		cfg.MessageModifier = inPlaceModifier
	}
	ag, err := react.NewAgent(context.Background(), cfg)
	if err != nil {
		o.Infra = "NewAgent: " + err.Error()
		return o
	}
	type result struct {
		msg   *schema.Message
		err   error
		panic any
		done  bool
	}
	res := map[string]*result{"gen": {}, "str": {}}
	s.Go("caller0", func() {
		for i := 0; i < 2; i++ {
			which := []string{"gen", "str"}[(i+order)%2]
			r := res[which]
			func() {
				defer func() {
					if pn := recover(); pn != nil {
						r.panic = pn
					}
					r.done = true
				}()
				ctx := withTag(context.Background(), which)
				if which == "gen" {
					r.msg, r.err = ag.Generate(ctx, input)
					return
				}
				sr, err := ag.Stream(ctx, input)
				if err != nil {
					r.err = err
					return
				}
				var chunks []*schema.Message
				for {
					c, err := sr.Recv()
					if err == io.EOF {
						break
					}
					if err != nil {
						r.err = err
						break
					}
					chunks = append(chunks, c)
				}
				sr.Close()
				if r.err == nil {
					if len(chunks) == 0 {
						r.err = errors.New("empty output stream")
					} else {
						r.msg, r.err = schema.ConcatMessages(chunks)
					}
				}
			}()
		}
	})
	kr := s.Run(100000)
	core.FinishKernel(o, s, kr, "C18")
	if o.Infra != "" || kr.Budget {
		return o
	}
	for which, r := range res {
		if !r.done {
			o.Violate("C18/hang", which+" never returned; unfinished: "+strings.Join(kr.Unfinished, ",")+"\n"+blockedStacks(kr))
			return o
		}
		if r.panic != nil {
			o.Violate("C18/panic-escaped", fmt.Sprintf("%s: %v", which, r.panic))
			continue
		}
		switch ex.err {
		case "max-steps":
			if r.err == nil {
				o.Violate("C18/no-step-limit-error", fmt.Sprintf("%s: the script exceeds the step limit %d, the agent returned %s", which, p.maxStep, msgCanon(r.msg)))
			} else if !errors.Is(r.err, compose.ErrExceedMaxSteps) {
				o.Violate("C18/wrong-error", fmt.Sprintf("%s: expected the step-limit error, got %s", which, firstLine(r.err.Error())))
			}
			o.Stat("probe.step_limit_hit", 1)
		case "tool-failure":
			if r.err == nil {
				o.Violate("C18/tool-failure-swallowed", fmt.Sprintf("%s returned %s", which, msgCanon(r.msg)))
			}
			o.Stat("probe.tool_failure", 1)
		default:
			if r.err != nil {
				o.Violate("C18/unexpected-error", fmt.Sprintf("%s: %s", which, firstLine(r.err.Error())))
				continue
			}
			if got := msgCanon(stripIndex(r.msg)); got != ex.final {
				o.Violate("C18/wrong-answer", fmt.Sprintf("%s: expected %q, got %q", which, ex.final, got))
			}
		}
		// what the model saw at each call
		seen := env.modelSeen[which]
		for k := 0; k < len(seen) && k < len(ex.history); k++ {
			if seen[k] != ex.history[k] {
				o.Violate("C18/wrong-history", fmt.Sprintf("%s: model call %d saw [%s], expected [%s]", which, k, seen[k], ex.history[k]))
				break
			}
		}
		if ex.err == "" && len(seen) != len(ex.history) {
			o.Violate("C18/wrong-number-of-model-calls", fmt.Sprintf("%s: %d model calls, expected %d", which, len(seen), len(ex.history)))
		}
	}
	if len(p.direct) > 0 {
		o.Stat("probe.return_directly_configured", 1)
	}
	for _, v := range env.problems {
		o.Violate(v.Class, v.Msg)
	}
	for k, v := range env.faults {
		o.Stat("fault."+k, v)
	}
	for k, v := range env.probes {
		o.Stat("probe."+k, v)
	}
	o.Stat("model_calls", len(env.modelSeen["gen"])+len(env.modelSeen["str"]))
	return o
}

func blockedStacks(kr *kernel.Result) string {
	var sb strings.Builder
	for i, g := range kr.Blocked {
		if i >= 4 {
			break
		}
		st := g.Stack
		if len(st) > 1500 {
			st = st[:1500]
		}
		sb.WriteString(st + "\n\n")
	}
	return sb.String()
}

func keys(m map[string]struct{}) []string {
	var out []string
	for k := range m {
		out = append(out, k)
	}
	sort.Strings(out)
	return out
}

func init() {
	core.Register(&core.Profile{
		RaceQuick: 200, RaceThorough: 3000, ID: "C18", Engine: "agentsim", Quick: 3000, Thorough: 80000, ThoroughSeeds: 3, Run: runC18,
		Rule: "each run draws a model script (0-3 tool-calling turns with 1-3 calls each, then a final answer, or an endless script), a chunking of every model message (tool calls first for the default checker, or text first with a whole-stream checker; leading empty chunks; pipe or array), 1-3 tools with yields, a return-directly set, a step limit, optionally a failing tool; Generate and Stream are both called; oracle: k-th model call sees original + every earlier assistant message + its tool results in call order, the answer is the first message without tool calls or the return-directly tool's message, step-limit error otherwise, Generate = concat(Stream); since the seeded waves: JSON arguments, tools built with utils.InferTool on a pointer request type, a MessageModifier written with the in-place filter idiom, up to two return-directly tools, tool calls answered with the empty string",
		Real: agentReal, Stub: agentStub,
		Faults: []string{"model chunking", "tool completion order", "step limit", "tool failure"},
	})
}

// runC09React: one ReAct agent, several caller tasks at once (Generate and Stream mixed),
// each with its own conversation; every caller must get what it would get alone.
func runC09React(t *kernel.Tape, opt core.Opts) *core.Outcome {
	o := &core.Outcome{}
	p := drawReact(t)
	p.failing = false
	for _, sp := range p.specs {
		sp.Fail = map[string]int{}
	}
	mcut, mpipe := t.Plan(4), t.PlanBool(50)
	nc := 2 + t.Plan(2)
	kinds := make([]int, nc)
	for i := range kinds {
		kinds[i] = t.Plan(2)
	}
	shareInput := t.PlanBool(50)
	ownTools := t.PlanBool(40)
	o.Sample = fmt.Sprintf("ownTools=%v ", ownTools) + fmt.Sprintf("react-concurrent callers=%d kinds=%v tools=%s script=%v loop=%v maxStep=%d direct=%v strict=%v modifier=%v", nc, kinds, specsStr(p.specs), p.script, p.loop, p.maxStep, keys(p.direct), p.strict, p.modifier) + fmt.Sprintf(" sharedInput=%v", shareInput)
	o.PlanHash = core.HashString(o.Sample)
	s := kernel.New(t, 300)
	defer s.Close()
	s.KeepTrace = opt.KeepTrace
	env := newEnv(s)
	mdl := &simModel{env: env, script: p.script, loop: p.loop, cut: mcut, pipe: mpipe, strict: p.strict, yields: 1}
	cfg := &react.AgentConfig{ToolCallingModel: mdl, ToolsConfig: compose.ToolsNodeConfig{Tools: env.build(p.specs)}, MaxStep: p.maxStep, ToolReturnDirectly: p.direct}
	if p.modifier {
		cfg.MessageModifier = inPlaceModifier
	}
	if !p.strict {
		cfg.StreamToolCallChecker = wholeStreamChecker
	}
	ag, err := react.NewAgent(context.Background(), cfg)
	if err != nil {
		o.Infra = "NewAgent: " + err.Error()
		return o
	}
	type result struct {
		msg   *schema.Message
		err   error
		panic any
		done  bool
	}
	results := make([]*result, nc)
	inputs := make([][]*schema.Message, nc)
	// the tools tell the runs apart (their answers carry the caller's tag); in half of the runs
	// all callers pass one and the same input slice, which has spare capacity
	env.tagOutputs = true
	sharedIn := make([]*schema.Message, 1, 8)
	sharedIn[0] = schema.UserMessage("hello-0")
	// every caller passes the same shared option (a slice with spare capacity, as an
	// application-wide default would be) plus an option of its own
	base := make([]compose.Option, 1, 4)
	base[0] = compose.WithCallbacks(tagHandler(env, ""))
	shared := agent.WithComposeOptions(base...)
	for i := 0; i < nc; i++ {
		i := i
		results[i] = &result{}
		inputs[i] = []*schema.Message{schema.UserMessage(fmt.Sprintf("hello-%d", i))}
		if shareInput {
			inputs[i] = sharedIn
		}
		tag := fmt.Sprintf("r%d", i)
		s.Go("caller"+tag, func() {
			r := results[i]
			defer func() {
				if pn := recover(); pn != nil {
					r.panic = pn
				}
				r.done = true
			}()
			ctx := withTag(context.Background(), tag)
			// (designated to the model node: the framework looks designated handlers up again
			// at every execution of the node, i.e. also long after the call started)
			own := agent.WithComposeOptions(compose.WithCallbacks(tagHandler(env, tag)).DesignateNode("chat"))
			if ownTools {
				// the caller brings its own (equivalent) tools with the call
				own = agent.WithComposeOptions(compose.WithCallbacks(tagHandler(env, tag)).DesignateNode("chat"),
					compose.WithToolsNodeOption(compose.WithToolList(env.buildFor(p.specs, tag)...)))
			}
			if kinds[i] == 0 {
				r.msg, r.err = ag.Generate(ctx, inputs[i], shared, own)
				return
			}
			sr, err := ag.Stream(ctx, inputs[i], shared, own)
			if err != nil {
				r.err = err
				return
			}
			var chunks []*schema.Message
			for {
				c, err := sr.Recv()
				if err == io.EOF {
					break
				}
				if err != nil {
					r.err = err
					break
				}
				chunks = append(chunks, c)
			}
			sr.Close()
			if r.err == nil && len(chunks) > 0 {
				r.msg, r.err = schema.ConcatMessages(chunks)
			}
		})
	}
	kr := s.Run(300000)
	core.FinishKernel(o, s, kr, "C09")
	if o.Infra != "" || kr.Budget {
		return o
	}
	for i, r := range results {
		tag := fmt.Sprintf("r%d", i)
		if !r.done {
			o.Violate("C09/hang", tag+" never returned; unfinished: "+strings.Join(kr.Unfinished, ",")+"\n"+blockedStacks(kr))
			return o
		}
		if r.panic != nil {
			o.Violate("C09/panic-escaped", fmt.Sprintf("%s: %v", tag, r.panic))
			continue
		}
		p.suffix = "@" + tag
		ex := p.expect(inputs[i][:1])
		switch ex.err {
		case "max-steps":
			if r.err == nil || !errors.Is(r.err, compose.ErrExceedMaxSteps) {
				o.Violate("C09/agent-result-differs-from-solo-run", fmt.Sprintf("%s: expected the step-limit error, got msg=%s err=%v", tag, msgCanon(r.msg), r.err))
			}
		default:
			if r.err != nil {
				o.Violate("C09/agent-result-differs-from-solo-run", fmt.Sprintf("%s: unexpected error %s", tag, firstLine(r.err.Error())))
			} else if got := msgCanon(stripIndex(r.msg)); got != ex.final {
				o.Violate("C09/agent-result-differs-from-solo-run", fmt.Sprintf("%s: expected %q, got %q", tag, ex.final, got))
			}
		}
		seen := env.modelSeen[tag]
		for k := 0; k < len(seen) && k < len(ex.history); k++ {
			if seen[k] != ex.history[k] {
				o.Violate("C09/agent-history-mixed-up", fmt.Sprintf("%s: model call %d saw [%s], expected [%s]", tag, k, seen[k], ex.history[k]))
				break
			}
		}
	}
	for _, v := range env.problems {
		o.Violate(v.Class, v.Msg)
	}
	for k, v := range env.probes {
		o.Stat("probe."+k, v)
	}
	o.Stat("scenario.react_concurrent", 1)
	o.Stat("callers", nc)
	return o
}

func init() {
	core.AltRunners["C09"] = func(t *kernel.Tape, opt core.Opts) *core.Outcome {
		if t.Plan(5) < 2 {
			return runC09Host(t, opt) // the bundled host multi-agent
		}
		return runC09React(t, opt)
	}
}

// tagHandler builds a callback handler owned by one caller (owner "" = shared by all): it
// must only ever be invoked in the context of its owner's run.
func tagHandler(env *aenv, owner string) callbacks.Handler {
	check := func(ctx context.Context, info *callbacks.RunInfo, timing string) context.Context {
		env.probes["agent_callback_events"]++
		if owner != "" && tagOf(ctx) != owner {
			env.problems = append(env.problems, core.Violation{Class: "C09/callback-context-leak",
				Msg: fmt.Sprintf("the callback handler passed by caller %s was invoked (%s of %s) in the context of caller %s", owner, timing, info.Name, tagOf(ctx))})
		}
		if owner != "" {
			env.probes["own_handler_events:"+owner]++
		}
		return ctx
	}
	return callbacks.NewHandlerBuilder().
		OnStartFn(func(ctx context.Context, info *callbacks.RunInfo, _ callbacks.CallbackInput) context.Context {
			return check(ctx, info, "start")
		}).
		OnEndFn(func(ctx context.Context, info *callbacks.RunInfo, _ callbacks.CallbackOutput) context.Context {
			return check(ctx, info, "end")
		}).Build()
}
