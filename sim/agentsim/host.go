package agentsim

import (
	"context"
	"fmt"
	"io"
	"strings"

	"github.com/cloudwego/eino/components/model"
	"github.com/cloudwego/eino/compose"
	"github.com/cloudwego/eino/flow/agent"
	"github.com/cloudwego/eino/flow/agent/multiagent/host"
	"github.com/cloudwego/eino/schema"

	"verifsim/core"
	"verifsim/kernel"
)

// fnModel is a chat model whose answer is a function of the messages it is given (the
// simulated remote party of the host multi-agent scenario).
type fnModel struct {
	env    *aenv
	name   string
	decide func(in []*schema.Message) turn
	cut    int
	pipe   bool
	strict bool
	yields int
}

func (m *fnModel) WithTools(tools []*schema.ToolInfo) (model.ToolCallingChatModel, error) {
	return m, nil
}

func (m *fnModel) turnFor(ctx context.Context, in []*schema.Message) turn {
	e := m.env
	tag := tagOf(ctx)
	e.modelSeen[tag+"|"+m.name] = append(e.modelSeen[tag+"|"+m.name], msgsCanon(in))
	e.s.Log(fmt.Sprintf("model %s of %s sees %s", m.name, tag, msgsCanon(in)))
	for i := 0; i < m.yields; i++ {
		e.s.Yield("model:" + m.name)
	}
	return m.decide(in)
}

func (m *fnModel) Generate(ctx context.Context, in []*schema.Message, _ ...model.Option) (*schema.Message, error) {
	return m.turnFor(ctx, in).message(), nil
}

func (m *fnModel) Stream(ctx context.Context, in []*schema.Message, _ ...model.Option) (*schema.StreamReader[*schema.Message], error) {
	t := m.turnFor(ctx, in)
	chunks := (&simModel{cut: m.cut, strict: m.strict}).chunks(t)
	if !m.pipe {
		return schema.StreamReaderFromArray(chunks), nil
	}
	e := m.env
	sr, sw := schema.Pipe[*schema.Message](m.cut % 2)
	e.prodN++
	e.s.Go(fmt.Sprintf("modelprod:%s:%s#%d", m.name, tagOf(ctx), e.prodN), func() {
		defer sw.Close()
		for _, c := range chunks {
			if sw.Send(c, nil) {
				e.probes["model_stream_closed_early"]++
				return
			}
		}
	})
	return sr, nil
}

type handOffRec struct {
	owner, ctxTag, to, arg string
}

// hostCB is the MultiAgentCallback one caller passes with its call.
type hostCB struct {
	env   *aenv
	owner string
	seen  *[]handOffRec
}

func (c hostCB) OnHandOff(ctx context.Context, info *host.HandOffInfo) context.Context {
	*c.seen = append(*c.seen, handOffRec{c.owner, tagOf(ctx), info.ToAgentName, info.Argument})
	return ctx
}

// specPlan is one specialist of the host multi-agent.
type specPlan struct {
	Name   string
	Kind   int // 0 chat model, 1 invokable, 2 streamable, 3 both
	Prompt string
	Yields int
	Cut    int
	Pipe   bool
}

func specAnswer(name string, in []*schema.Message) string { return name + "(" + msgsCanon(in) + ")" }

// runC09Host: one host multi-agent, several caller tasks at once (Generate and Stream mixed),
// each with its own question: the host hands every caller's question to the specialist that
// caller asked for (or answers itself), and every caller gets what it would get alone.
func runC09Host(t *kernel.Tape, opt core.Opts) *core.Outcome {
	o := &core.Outcome{}
	ns := 2 + t.Plan(2)
	var specs []*specPlan
	for i := 0; i < ns; i++ {
		sp := &specPlan{Name: fmt.Sprintf("s%d", i), Kind: t.Plan(4), Yields: t.Plan(3), Cut: t.Plan(4), Pipe: t.PlanBool(50)}
		if sp.Kind == 0 && t.PlanBool(50) {
			sp.Prompt = "you are " + sp.Name
		}
		specs = append(specs, sp)
	}
	hostPrompt := ""
	if t.PlanBool(50) {
		hostPrompt = "route"
	}
	hcut, hpipe, hstrict, hyields := t.Plan(4), t.PlanBool(50), t.PlanBool(50), t.Plan(3)
	nc := 2 + t.Plan(3)
	kinds := make([]int, nc)   // 0 Generate, 1 Stream
	targets := make([]int, nc) // -1: the host answers itself
	for i := range kinds {
		kinds[i] = t.Plan(2)
		targets[i] = t.Plan(ns+1) - 1
	}
	var sb strings.Builder
	for _, sp := range specs {
		fmt.Fprintf(&sb, "%s/k%d/y%d/c%d/p%v/%q ", sp.Name, sp.Kind, sp.Yields, sp.Cut, sp.Pipe, sp.Prompt)
	}
	o.Sample = fmt.Sprintf("host-concurrent specialists=[%s] hostPrompt=%q host=c%d/p%v/strict%v/y%d callers=%d kinds=%v targets=%v", sb.String(), hostPrompt, hcut, hpipe, hstrict, hyields, nc, kinds, targets)
	o.PlanHash = core.HashString(o.Sample)

	s := kernel.New(t, 300)
	defer s.Close()
	s.KeepTrace = opt.KeepTrace
	env := newEnv(s)

	// the host model routes by the last user message: "to:<specialist>:<i>" or "direct:<i>"
	hostModel := &fnModel{env: env, name: "host", cut: hcut, pipe: hpipe, strict: hstrict, yields: hyields,
		decide: func(in []*schema.Message) turn {
			last := in[len(in)-1].Content
			if strings.HasPrefix(last, "to:") {
				parts := strings.Split(last, ":")
				return turn{Calls: []callPlan{{Name: parts[1], Args: `{"reason":"` + parts[2] + `"}`, ID: "h" + parts[2]}}}
			}
			return turn{Content: specAnswer("host", in)}
		}}
	cfg := &host.MultiAgentConfig{Host: host.Host{ToolCallingModel: hostModel, SystemPrompt: hostPrompt}}
	if !hstrict {
		cfg.StreamToolCallChecker = wholeStreamChecker
	}
	for _, sp := range specs {
		sp := sp
		hs := &host.Specialist{AgentMeta: host.AgentMeta{Name: sp.Name, IntendedUse: "answers questions for " + sp.Name}}
		answer := func(ctx context.Context, in []*schema.Message) *schema.Message {
			env.s.Log(fmt.Sprintf("specialist %s of %s sees %s", sp.Name, tagOf(ctx), msgsCanon(in)))
			for i := 0; i < sp.Yields; i++ {
				env.s.Yield("specialist:" + sp.Name)
			}
			return schema.AssistantMessage(specAnswer(sp.Name, in), nil)
		}
		stream := func(ctx context.Context, in []*schema.Message) *schema.StreamReader[*schema.Message] {
			m := answer(ctx, in)
			var chunks []*schema.Message
			for _, c := range cut(m.Content, sp.Cut) {
				chunks = append(chunks, &schema.Message{Role: schema.Assistant, Content: c})
			}
			if !sp.Pipe {
				return schema.StreamReaderFromArray(chunks)
			}
			sr, sw := schema.Pipe[*schema.Message](sp.Cut % 2)
			env.prodN++
			env.s.Go(fmt.Sprintf("specprod:%s:%s#%d", sp.Name, tagOf(ctx), env.prodN), func() {
				defer sw.Close()
				for _, c := range chunks {
					if sw.Send(c, nil) {
						return
					}
				}
			})
			return sr
		}
		switch sp.Kind {
		case 0:
			hs.ChatModel = &fnModel{env: env, name: sp.Name, cut: sp.Cut, pipe: sp.Pipe, yields: sp.Yields,
				decide: func(in []*schema.Message) turn { return turn{Content: specAnswer(sp.Name, in)} }}
			hs.SystemPrompt = sp.Prompt
		default:
			if sp.Kind == 1 || sp.Kind == 3 {
				hs.Invokable = func(ctx context.Context, in []*schema.Message, _ ...agent.AgentOption) (*schema.Message, error) {
					return answer(ctx, in), nil
				}
			}
			if sp.Kind == 2 || sp.Kind == 3 {
				hs.Streamable = func(ctx context.Context, in []*schema.Message, _ ...agent.AgentOption) (*schema.StreamReader[*schema.Message], error) {
					return stream(ctx, in), nil
				}
			}
		}
		cfg.Specialists = append(cfg.Specialists, hs)
	}
	ma, err := host.NewMultiAgent(context.Background(), cfg)
	if err != nil {
		o.Infra = "NewMultiAgent: " + err.Error()
		return o
	}
	type result struct {
		msg   *schema.Message
		err   error
		panic any
		done  bool
	}
	results := make([]*result, nc)
	inputs := make([][]*schema.Message, nc)
	var handOffs []handOffRec
	// every caller passes the same shared compose option (a slice with spare capacity) plus
	// options of its own
	base := make([]compose.Option, 1, 4)
	base[0] = compose.WithCallbacks(tagHandler(env, ""))
	shared := agent.WithComposeOptions(base...)
	for i := 0; i < nc; i++ {
		i := i
		results[i] = &result{}
		q := fmt.Sprintf("direct:%d", i)
		if targets[i] >= 0 {
			q = fmt.Sprintf("to:%s:%d", specs[targets[i]].Name, i)
		}
		inputs[i] = []*schema.Message{schema.UserMessage(q)}
		tag := fmt.Sprintf("r%d", i)
		s.Go("caller"+tag, func() {
			r := results[i]
			defer func() {
				if pn := recover(); pn != nil {
					r.panic = pn
				}
				r.done = true
			}()
			ctx := withTag(context.Background(), tag)
			own := agent.WithComposeOptions(compose.WithCallbacks(tagHandler(env, tag)))
			cb := host.WithAgentCallbacks(hostCB{env: env, owner: tag, seen: &handOffs})
			if kinds[i] == 0 {
				r.msg, r.err = ma.Generate(ctx, inputs[i], shared, own, cb)
				return
			}
			sr, err := ma.Stream(ctx, inputs[i], shared, own, cb)
			if err != nil {
				r.err = err
				return
			}
			var chunks []*schema.Message
			for {
				c, err := sr.Recv()
				if err == io.EOF {
					break
				}
				if err != nil {
					r.err = err
					break
				}
				chunks = append(chunks, c)
			}
			sr.Close()
			if r.err == nil && len(chunks) > 0 {
				r.msg, r.err = schema.ConcatMessages(chunks)
			}
		})
	}
	kr := s.Run(300000)
	core.FinishKernel(o, s, kr, "C09")
	if o.Infra != "" || kr.Budget {
		return o
	}
	for i, r := range results {
		tag := fmt.Sprintf("r%d", i)
		if !r.done {
			o.Violate("C09/hang", tag+" never returned; unfinished: "+strings.Join(kr.Unfinished, ",")+"\n"+blockedStacks(kr))
			return o
		}
		if r.panic != nil {
			o.Violate("C09/panic-escaped", fmt.Sprintf("%s: %v", tag, r.panic))
			continue
		}
		// what this caller gets alone
		hostIn := inputs[i]
		if hostPrompt != "" {
			hostIn = append([]*schema.Message{schema.SystemMessage(hostPrompt)}, inputs[i]...)
		} else {
			hostIn = append([]*schema.Message{schema.SystemMessage("decide which tool is best for the task and call only the best tool.")}, inputs[i]...)
		}
		want := specAnswer("host", hostIn)
		if targets[i] >= 0 {
			sp := specs[targets[i]]
			in := inputs[i]
			if sp.Kind == 0 && sp.Prompt != "" {
				in = append([]*schema.Message{schema.SystemMessage(sp.Prompt)}, inputs[i]...)
			}
			want = specAnswer(sp.Name, in)
		}
		switch {
		case r.err != nil:
			o.Violate("C09/host-result-differs-from-solo-run", fmt.Sprintf("%s: unexpected error %s", tag, firstLine(r.err.Error())))
		case r.msg == nil || r.msg.Content != want:
			o.Violate("C09/host-result-differs-from-solo-run", fmt.Sprintf("%s: expected %q, got %s", tag, want, msgCanon(r.msg)))
		}
		// hand-off callbacks: the caller's own callback, in the caller's own context, exactly
		// once if the host handed off
		n := 0
		for _, h := range handOffs {
			if h.owner != tag {
				continue
			}
			n++
			if h.ctxTag != tag {
				o.Violate("C09/callback-context-leak", fmt.Sprintf("the hand-off callback of caller %s was invoked in the context of caller %s (to %s)", tag, h.ctxTag, h.to))
			}
			if targets[i] < 0 || h.to != specs[targets[i]].Name {
				o.Violate("C09/foreign-hand-off-reported", fmt.Sprintf("the hand-off callback of caller %s (target %d) was told about a hand-off to %s %s", tag, targets[i], h.to, h.arg))
			}
		}
		wantN := 0
		if targets[i] >= 0 {
			wantN = 1
		}
		if n != wantN {
			o.Violate("C09/hand-off-callback-count", fmt.Sprintf("caller %s: %d hand-off(s) expected, its callback was invoked %d time(s)", tag, wantN, n))
		}
	}
	for _, v := range env.problems {
		o.Violate(v.Class, v.Msg)
	}
	for k, v := range env.probes {
		o.Stat("probe."+k, v)
	}
	o.Stat("scenario.host_concurrent", 1)
	o.Stat("callers", nc)
	return o
}
