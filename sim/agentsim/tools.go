// Package agentsim simulates the ToolsNode and the ReAct agent: tools and the chat model
// are harness tasks (the "remote parties") whose completion order, chunking and failures
// the tape decides.
package agentsim

import (
	"context"
	"encoding/json"
	"errors"
	"fmt"
	"github.com/cloudwego/eino/callbacks"
	"github.com/cloudwego/eino/components"
	"io"
	"sort"
	"strings"

	"github.com/cloudwego/eino/components/tool"
	"github.com/cloudwego/eino/components/tool/utils"
	"github.com/cloudwego/eino/compose"
	"github.com/cloudwego/eino/schema"

	"verifsim/core"
	"verifsim/kernel"
)

type tagKey struct{}

func withTag(ctx context.Context, tag string) context.Context {
	return context.WithValue(ctx, tagKey{}, tag)
}

func tagOf(ctx context.Context) string {
	if v, ok := ctx.Value(tagKey{}).(string); ok {
		return v
	}
	return "?"
}

// InjErr is the sentinel of an injected tool failure.
type InjErr struct {
	What string
	EOF  bool // the error wraps io.EOF (an error item all the same)
}

func (e *InjErr) Error() string { return "INJECTED<" + e.What + ">" }

func (e *InjErr) Unwrap() error {
	if e.EOF {
		return io.EOF
	}
	return nil
}

type toolCallRec struct {
	Tag, Name, Args, CallID string
	Seq                     int
}

type aenv struct {
	s        *kernel.Sim
	seq      int
	calls    []toolCallRec
	prodN    int
	faults   map[string]int
	probes   map[string]int
	problems []core.Violation
	// tagOutputs: tools append the tag of the calling run to their answers
	tagOutputs bool
	cbEvents   []cbEvent // what a globally installed callback handler saw
	// model
	modelCalls map[string]int
	modelSeen  map[string][]string // tag -> canonical input of each call
}

func newEnv(s *kernel.Sim) *aenv {
	return &aenv{s: s, faults: map[string]int{}, probes: map[string]int{}, modelCalls: map[string]int{}, modelSeen: map[string][]string{}}
}

func (e *aenv) nextSeq() int { e.seq++; return e.seq }

type cbEvent struct {
	Timing, Name string
	Comp         components.Component
}

// globalHandler records the callbacks a handler installed globally (and nowhere else) gets.
func (e *aenv) globalHandler() callbacks.Handler {
	rec := func(timing string, info *callbacks.RunInfo) {
		if info != nil {
			e.cbEvents = append(e.cbEvents, cbEvent{timing, info.Name, info.Component})
		}
	}
	return callbacks.NewHandlerBuilder().
		OnStartFn(func(ctx context.Context, info *callbacks.RunInfo, in callbacks.CallbackInput) context.Context {
			rec("start", info)
			return ctx
		}).
		OnEndFn(func(ctx context.Context, info *callbacks.RunInfo, out callbacks.CallbackOutput) context.Context {
			rec("end", info)
			return ctx
		}).
		OnErrorFn(func(ctx context.Context, info *callbacks.RunInfo, err error) context.Context {
			rec("end", info)
			return ctx
		}).
		OnStartWithStreamInputFn(func(ctx context.Context, info *callbacks.RunInfo, in *schema.StreamReader[callbacks.CallbackInput]) context.Context {
			in.Close()
			rec("start", info)
			return ctx
		}).
		OnEndWithStreamOutputFn(func(ctx context.Context, info *callbacks.RunInfo, out *schema.StreamReader[callbacks.CallbackOutput]) context.Context {
			out.Close()
			rec("end", info)
			return ctx
		}).Build()
}

// toolSpec is the plan of one tool.
type toolSpec struct {
	Name   string
	Kind   int // 0 invokable only, 1 streamable only, 2 both, 3 invokable built with components/tool/utils (JSON arguments decoded into a pointer-typed request)
	Yields int
	Cut    int
	Pipe   bool
	// Fail: args -> 1 error, 2 panic, 3 error item mid-stream (streamable tools)
	Fail map[string]int
	// Empty: arguments that are answered with the empty string
	Empty map[string]bool
	// SelfCB: the tool fires its own callbacks (IsCallbacksEnabled() == true), the way
	// instrumented components do; the tools node then must not wrap it a second time
	SelfCB bool
}

type baseTool struct {
	spec *toolSpec
	env  *aenv
	// owner: set for tools a caller passes with its own call (tool list call option): they must
	// only ever run for that caller
	owner string
}

// toolOutput: what a tool answers. Some (tool, arguments) pairs are answered with the empty
// string; suffix distinguishes the answers given to different concurrent runs.
func toolOutput(sp *toolSpec, args, suffix string) string {
	if sp.Empty[args] {
		return ""
	}
	return sp.Name + "(" + args + ")" + suffix
}

// expectedContent is the content of the tool message the tools node must produce for a call:
// the tool's output; tools built with components/tool/utils marshal their result to JSON.
func expectedContent(specs []*toolSpec, name, args, suffix string) string {
	out := name + "(" + args + ")" + suffix
	for _, sp := range specs {
		if sp.Name == name {
			out = toolOutput(sp, args, suffix)
		}
	}
	for _, sp := range specs {
		if sp.Name == name && sp.Kind == 3 {
			b, _ := json.Marshal(out)
			return string(b)
		}
	}
	return out
}

func (b *baseTool) Info(ctx context.Context) (*schema.ToolInfo, error) {
	return &schema.ToolInfo{Name: b.spec.Name, Desc: "simulated tool " + b.spec.Name}, nil
}

// IsCallbacksEnabled: see toolSpec.SelfCB.
func (b *baseTool) IsCallbacksEnabled() bool { return b.spec.SelfCB }

func (b *baseTool) run(ctx context.Context, args string, streaming bool) (out string, err error) {
	if b.spec.SelfCB {
		ctx = callbacks.OnStart(ctx, args)
		defer func() {
			if err != nil {
				callbacks.OnError(ctx, err)
			} else {
				callbacks.OnEnd(ctx, out)
			}
		}()
	}
	e := b.env
	id := compose.GetToolCallID(ctx)
	e.calls = append(e.calls, toolCallRec{Tag: tagOf(ctx), Name: b.spec.Name, Args: args, CallID: id, Seq: e.nextSeq()})
	if b.owner != "" && b.owner != tagOf(ctx) {
		e.problems = append(e.problems, core.Violation{Class: "C09/foreign-tool-executed", Msg: fmt.Sprintf("the tool %s that caller %s passed with its call was executed for caller %s", b.spec.Name, b.owner, tagOf(ctx))})
	}
	e.s.Log(fmt.Sprintf("tool %s %s(%s) id=%s", tagOf(ctx), b.spec.Name, args, id))
	for i := 0; i < b.spec.Yields; i++ {
		e.s.Yield("tool:" + b.spec.Name)
	}
	// a well-behaved tool honours its context (nobody cancels it while the call is in progress)
	if err := ctx.Err(); err != nil {
		e.faults["tool_saw_cancelled_context"]++
		return "", err
	}
	f := b.spec.Fail[args]
	if f == 3 && !streaming {
		f = 1 // the mid-stream failure of a tool that is invoked, not streamed
	}
	switch f {
	case 1:
		e.faults["tool_error"]++
		return "", &InjErr{What: b.spec.Name + "/" + args}
	case 2:
		e.faults["tool_panic"]++
		panic(fmt.Sprintf("PANIC<%s/%s>", b.spec.Name, args))
	}
	suffix := ""
	if e.tagOutputs {
		suffix = "@" + tagOf(ctx)
	}
	return toolOutput(b.spec, args, suffix), nil
}

func cut(v string, c int) []string {
	n := len(v)
	switch c {
	case 1:
		return []string{v[:n/2], v[n/2:]}
	case 2:
		return []string{"", v}
	case 3:
		return []string{v[:n/3], v[n/3 : 2*n/3], v[2*n/3:]}
	}
	return []string{v}
}

func (b *baseTool) stream(ctx context.Context, args string) (*schema.StreamReader[string], error) {
	out, err := b.run(ctx, args, true)
	if err != nil {
		return nil, err
	}
	chunks := cut(out, b.spec.Cut)
	mid := b.spec.Fail[args] == 3
	if !b.spec.Pipe && !mid {
		return schema.StreamReaderFromArray(chunks), nil
	}
	e := b.env
	sr, sw := schema.Pipe[string](b.spec.Cut % 2)
	e.prodN++
	e.s.Go(fmt.Sprintf("toolprod:%s:%s#%d", tagOf(ctx), b.spec.Name, e.prodN), func() {
		defer sw.Close()
		for i, c := range chunks {
			if err := ctx.Err(); err != nil {
				e.faults["tool_saw_cancelled_context"]++
				sw.Send("", err)
				return
			}
			if mid && i == len(chunks)-1 {
				e.faults["tool_error_item_mid_stream"]++
				// (every other tool's error item wraps io.EOF)
				sw.Send("", &InjErr{What: b.spec.Name + "/" + args, EOF: b.spec.Name[len(b.spec.Name)-1]%2 == 0})
				return
			}
			if sw.Send(c, nil) {
				return
			}
		}
	})
	return sr, nil
}

type invTool struct{ *baseTool }

func (t invTool) InvokableRun(ctx context.Context, args string, _ ...tool.Option) (string, error) {
	return t.run(ctx, args, false)
}

type strTool struct{ *baseTool }

func (t strTool) StreamableRun(ctx context.Context, args string, _ ...tool.Option) (*schema.StreamReader[string], error) {
	return t.stream(ctx, args)
}

type bothTool struct{ *baseTool }

func (t bothTool) InvokableRun(ctx context.Context, args string, _ ...tool.Option) (string, error) {
	return t.run(ctx, args, false)
}
func (t bothTool) StreamableRun(ctx context.Context, args string, _ ...tool.Option) (*schema.StreamReader[string], error) {
	return t.stream(ctx, args)
}

// utilReq is the request type of the tools built with utils.InferTool.
type utilReq struct {
	A string `json:"a"`
	B string `json:"b,omitempty"`
}

func (e *aenv) build(specs []*toolSpec) []tool.BaseTool { return e.buildFor(specs, "") }

func (e *aenv) buildFor(specs []*toolSpec, owner string) []tool.BaseTool {
	var out []tool.BaseTool
	for _, sp := range specs {
		b := &baseTool{spec: sp, env: e, owner: owner}
		switch sp.Kind {
		case 3:
			bb := b
			t, err := utils.InferTool(sp.Name, "simulated tool "+sp.Name, func(ctx context.Context, in *utilReq) (string, error) {
				// the tool yields between receiving its request and using it
				args := in.A
				for i := 0; i < bb.spec.Yields+1; i++ {
					e.s.Yield("utiltool:" + bb.spec.Name)
				}
				if in.A != args || in.B != "" {
					e.problems = append(e.problems, core.Violation{Class: "C17/tool-request-changed-under-the-tool", Msg: fmt.Sprintf("%s was called with a=%q; while it was working its request became a=%q b=%q", bb.spec.Name, args, in.A, in.B)})
				}
				// (it reads the request when it needs it, i.e. after the slow part)
				return bb.run(ctx, `{"a":"`+in.A+`"}`, false)
			})
			if err != nil {
				panic(err)
			}
			out = append(out, t)
		case 0:
			out = append(out, invTool{b})
		case 1:
			out = append(out, strTool{b})
		default:
			out = append(out, bothTool{b})
		}
	}
	return out
}

func drawTools(t *kernel.Tape, n int) []*toolSpec {
	var specs []*toolSpec
	for i := 0; i < n; i++ {
		specs = append(specs, &toolSpec{Name: fmt.Sprintf("t%d", i), Kind: t.Plan(4), Yields: t.Plan(3), Cut: t.Plan(4), Pipe: t.PlanBool(50), Fail: map[string]int{}, Empty: map[string]bool{}})
	}
	return specs
}

func msgCanon(m *schema.Message) string {
	if m == nil {
		return "<nil>"
	}
	var tcs []string
	for _, tc := range m.ToolCalls {
		tcs = append(tcs, fmt.Sprintf("%s:%s(%s)", tc.ID, tc.Function.Name, tc.Function.Arguments))
	}
	return fmt.Sprintf("%s|%s|%s|%s", m.Role, m.Content, m.ToolCallID, strings.Join(tcs, ","))
}

func msgsCanon(ms []*schema.Message) string {
	var l []string
	for _, m := range ms {
		l = append(l, msgCanon(m))
	}
	return strings.Join(l, " ; ")
}

// concatToolMsgs merges streamed chunks of a tools node (lists with one entry set per chunk).
func concatToolMsgs(acc []*schema.Message, chunk []*schema.Message) []*schema.Message {
	if len(acc) < len(chunk) {
		acc = append(acc, make([]*schema.Message, len(chunk)-len(acc))...)
	}
	for i, m := range chunk {
		if m == nil {
			continue
		}
		if acc[i] == nil {
			c := *m
			acc[i] = &c
			continue
		}
		acc[i].Content += m.Content
		if acc[i].ToolCallID == "" {
			acc[i].ToolCallID = m.ToolCallID
		}
	}
	return acc
}

type callPlan struct {
	Name, Args, ID string
}

// runC17: the tools node answers every call in call order whatever the completion order.
func runC17(t *kernel.Tape, opt core.Opts) *core.Outcome {
	o := &core.Outcome{}
	specs := drawTools(t, 2+t.Plan(3))
	n := 1 + t.Plan(5)
	var calls []callPlan
	unknown := false
	for i := 0; i < n; i++ {
		c := callPlan{Args: fmt.Sprintf(`{"a":"a%d"}`, i), ID: fmt.Sprintf("c%d", i)}
		if t.PlanBool(12) {
			c.Name = "nosuchtool"
			unknown = true
		} else {
			c.Name = specs[t.Plan(len(specs))].Name
		}
		calls = append(calls, c)
	}
	handler := t.PlanBool(50)
	nFail := 0
	if t.PlanBool(35) {
		nFail = 1 + t.Plan(2)
	}
	failing := map[int]int{}
	for i := 0; i < nFail; i++ {
		k := t.Plan(n)
		if calls[k].Name == "nosuchtool" {
			continue
		}
		kind := 1 + t.Plan(3)
		for _, sp := range specs {
			if sp.Name == calls[k].Name {
				if kind == 3 && sp.Kind == 0 {
					kind = 1
				}
				sp.Fail[calls[k].Args] = kind
			}
		}
		failing[k] = kind
	}
	// some calls are answered with the empty string
	var empties []int
	for k, c := range calls {
		if _, f := failing[k]; !f && c.Name != "nosuchtool" && t.PlanBool(8) {
			for _, sp := range specs {
				if sp.Name == c.Name && sp.Fail[c.Args] == 0 {
					sp.Empty[c.Args] = true
					empties = append(empties, k)
				}
			}
		}
	}
	inGraph := t.PlanBool(50)
	stream := t.PlanBool(50)
	globalCB := t.PlanBool(40) // a callback handler installed globally only
	// some tools are instrumented components that fire their own callbacks
	for _, sp := range specs {
		if sp.Kind != 3 && t.PlanBool(25) {
			sp.SelfCB = true
		}
	}
	// an explicit, empty tool list given with the call: every call then names an unknown tool
	emptyList := t.PlanBool(6)
	if emptyList {
		failing = map[int]int{}
		for _, sp := range specs {
			sp.Fail = map[string]int{}
		}
		unknown = true
	}
	o.Sample = fmt.Sprintf("tools=%s calls=%v unknownHandler=%v failing=%v empty=%v graph=%v stream=%v globalCB=%v emptyToolList=%v", specsStr(specs), calls, handler, failing, empties, inGraph, stream, globalCB, emptyList)
	o.PlanHash = core.HashString(o.Sample)

	s := kernel.New(t, 100)
	defer s.Close()
	s.KeepTrace = opt.KeepTrace
	env := newEnv(s)
	conf := &compose.ToolsNodeConfig{Tools: env.build(specs)}
	if handler {
		conf.UnknownToolsHandler = func(ctx context.Context, name, input string) (string, error) {
			env.probes["unknown_tool_handler_called"]++
			return "unk(" + name + "," + input + ")", nil
		}
	}
	if globalCB {
		callbacks.InitCallbackHandlers([]callbacks.Handler{env.globalHandler()})
		defer callbacks.InitCallbackHandlers(nil)
	}
	ctx := withTag(context.Background(), "r0")
	tn, err := compose.NewToolNode(ctx, conf)
	if err != nil {
		o.Infra = "NewToolNode: " + err.Error()
		return o
	}
	var runnable compose.Runnable[*schema.Message, []*schema.Message]
	if inGraph {
		g := compose.NewGraph[*schema.Message, []*schema.Message]()
		_ = g.AddToolsNode("tools", tn)
		_ = g.AddEdge(compose.START, "tools")
		_ = g.AddEdge("tools", compose.END)
		runnable, err = g.Compile(ctx)
		if err != nil {
			o.Infra = "compile: " + err.Error()
			return o
		}
	}
	msg := schema.AssistantMessage("", nil)
	for _, c := range calls {
		msg.ToolCalls = append(msg.ToolCalls, schema.ToolCall{ID: c.ID, Function: schema.FunctionCall{Name: c.Name, Arguments: c.Args}})
	}
	var out []*schema.Message
	var callErr error
	var panicked any
	done := false
	s.Go("caller0", func() {
		defer func() {
			if p := recover(); p != nil {
				panicked = p
			}
			done = true
		}()
		var sr *schema.StreamReader[[]*schema.Message]
		var gopts []compose.Option
		var nopts []compose.ToolsNodeOption
		if emptyList {
			nopts = append(nopts, compose.WithToolList([]tool.BaseTool{}...))
			gopts = append(gopts, compose.WithToolsNodeOption(nopts...))
		}
		switch {
		case inGraph && !stream:
			out, callErr = runnable.Invoke(ctx, msg, gopts...)
		case inGraph && stream:
			sr, callErr = runnable.Stream(ctx, msg, gopts...)
		case !stream:
			out, callErr = tn.Invoke(ctx, msg, nopts...)
		default:
			sr, callErr = tn.Stream(ctx, msg, nopts...)
		}
		if callErr == nil && sr != nil {
			for {
				c, err := sr.Recv()
				if err == io.EOF {
					break
				}
				if err != nil {
					callErr = err
					break
				}
				out = concatToolMsgs(out, c)
			}
			sr.Close()
		}
	})
	kr := s.Run(50000)
	core.FinishKernel(o, s, kr, "C17")
	if o.Infra != "" || kr.Budget {
		return o
	}
	if !done {
		o.Violate("C17/hang", "the call never returned; unfinished: "+strings.Join(kr.Unfinished, ","))
		return o
	}
	anyPanic, anyFail := false, false
	for _, k := range failing {
		if k == 2 {
			anyPanic = true
		}
		anyFail = true
	}
	if panicked != nil {
		if inGraph || !anyPanic || !strings.Contains(fmt.Sprint(panicked), "PANIC<") {
			o.Violate("C17/panic-escaped", fmt.Sprintf("inGraph=%v: %v", inGraph, panicked))
		} else {
			o.Stat("probe.direct_call_tool_panic_propagated", 1)
		}
		return o
	}
	switch {
	case unknown && !handler:
		if callErr == nil {
			o.Violate("C17/unknown-tool-not-rejected", "a call names a tool that does not exist and no handler is configured; result: "+msgsCanon(out))
		}
		o.Stat("probe.unknown_tool_error", 1)
	case anyFail:
		if callErr == nil {
			o.Violate("C17/tool-failure-swallowed", fmt.Sprintf("tools %v failed, the call returned %s", failing, msgsCanon(out)))
			break
		}
		var ie *InjErr
		okErr := errors.As(callErr, &ie)
		okPanic := strings.Contains(callErr.Error(), "PANIC<")
		if !okErr && !okPanic {
			o.Violate("C17/tool-error-not-recoverable", "the call failed, but neither errors.As finds the tool's error nor does the message carry the panic value: "+firstLine(callErr.Error()))
		}
		o.Stat("probe.tool_failure_reported", 1)
	default:
		if callErr != nil {
			o.Violate("C17/unexpected-error", firstLine(callErr.Error()))
			break
		}
		var want []string
		for _, c := range calls {
			content := expectedContent(specs, c.Name, c.Args, "")
			if c.Name == "nosuchtool" || emptyList {
				content = "unk(" + c.Name + "," + c.Args + ")"
			}
			want = append(want, msgCanon(schema.ToolMessage(content, c.ID)))
		}
		got := []string{}
		for _, m := range out {
			got = append(got, msgCanon(m))
		}
		if strings.Join(want, " ; ") != strings.Join(got, " ; ") {
			o.Violate("C17/wrong-answers", fmt.Sprintf("expected %v, got %v", want, got))
		}
		if globalCB && inGraph { // (a direct call of the node carries no callback manager)
			// every tool call is an execution unit of its own: the global handler gets one start and
			// one end per call, under the tool's name
			calledN := map[string]int{}
			for _, c := range env.calls {
				calledN[c.Name]++
			}
			starts, ends := map[string]int{}, map[string]int{}
			for _, ev := range env.cbEvents {
				if ev.Comp != components.ComponentOfTool {
					continue
				}
				if ev.Timing == "start" {
					starts[ev.Name]++
				} else {
					ends[ev.Name]++
				}
			}
			for name, n := range calledN {
				if starts[name] != n || ends[name] != n {
					o.Violate("C17/tool-callbacks-missing", fmt.Sprintf("tool %s was called %d time(s); the globally installed handler saw %d start and %d end callbacks for it (all events: %v)", name, n, starts[name], ends[name], env.cbEvents))
				}
			}
			o.Stat("probe.global_handler_tool_events", len(env.cbEvents))
		}
	}
	// every call of an existing tool was executed exactly once, with its own call id
	if !(unknown && !handler) {
		var want, got []string
		for _, c := range calls {
			if c.Name != "nosuchtool" && !emptyList {
				want = append(want, c.Name+"|"+c.Args+"|"+c.ID)
			}
		}
		for _, c := range env.calls {
			got = append(got, c.Name+"|"+c.Args+"|"+c.CallID)
		}
		sort.Strings(want)
		sort.Strings(got)
		if strings.Join(want, ",") != strings.Join(got, ",") {
			o.Violate("C17/tool-executions", fmt.Sprintf("expected executions %v, observed %v", want, got))
		}
	} else if len(env.calls) > 0 {
		o.Stat("probe.tools_ran_despite_unknown_name", 1)
	}
	// completion order vs call order
	if len(env.calls) > 1 {
		inOrder := true
		for i := 1; i < len(env.calls); i++ {
			if env.calls[i].CallID < env.calls[i-1].CallID {
				inOrder = false
			}
		}
		if !inOrder {
			o.Stat("probe.tools_started_out_of_call_order", 1)
		}
	}
	for _, v := range env.problems {
		o.Violate(v.Class, v.Msg)
	}
	for k, v := range env.faults {
		o.Stat("fault."+k, v)
	}
	for k, v := range env.probes {
		o.Stat("probe."+k, v)
	}
	return o
}

func specsStr(specs []*toolSpec) string {
	var l []string
	for _, s := range specs {
		self := ""
		if s.SelfCB {
			self = "/selfcb"
		}
		l = append(l, fmt.Sprintf("%s/k%d/y%d/c%d%s", s.Name, s.Kind, s.Yields, s.Cut, self))
	}
	return strings.Join(l, ",")
}

func firstLine(s string) string {
	if i := strings.IndexByte(s, '\n'); i >= 0 {
		s = s[:i]
	}
	if len(s) > 240 {
		s = s[:240]
	}
	return s
}

var agentReal = []string{"compose.ToolsNode", "flow/agent/react", "compose graph engine, state, streams", "schema message concatenation"}
var agentStub = []string{"tools (harness tasks that yield, stream in chunks, fail or panic)", "chat model (scripted, streams drawn chunkings)", "multi-ready select choice and map-derived orders (seams)"}

func init() {
	core.Register(&core.Profile{
		RaceQuick: 200, RaceThorough: 3000, ID: "C17", Engine: "agentsim", Quick: 4000, Thorough: 100000, ThoroughSeeds: 3, Run: runC17,
		Rule: "each run draws 2-4 tools (invokable-only, streamable-only, both; yields, chunkings), an assistant message with 1-5 calls (repeated tools, unknown names), an unknown-tool handler or none, 0-2 failing calls (error, panic, error item mid-stream), direct call or inside a graph, Invoke or Stream, and one schedule (tool completion order); oracle: N answers in call order with the right ids and outputs, concat(Stream)=Invoke, failures and unknown names reported, every call executed exactly once with its own call id; tools built with utils.InferTool (pointer request type, used after yielding); calls answered with the empty string; in 2 of 5 runs a callback handler installed globally only, which must see one start and one end per tool call when the node runs inside a graph; 1 run in 16 passes an explicit, empty tool list with the call (every call is then unknown); every other tool's mid-stream error item wraps io.EOF; the tools honour their context; a quarter of them are instrumented components that fire their own callbacks",
		Real: agentReal, Stub: agentStub,
		Faults: []string{"tool completion order", "tool error", "tool panic", "error item mid-stream", "unknown tool name"},
	})
}
