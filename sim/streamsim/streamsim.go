// Package streamsim simulates random trees of stream operators (pipe, array, copy,
// merge, convert) with producer and consumer tasks under the deterministic kernel and
// checks the delivered sequences against the algebra stated in property C08.
package streamsim

import (
	"crypto/sha256"
	"encoding/hex"
	"errors"
	"fmt"
	"io"
	"regexp"
	"sort"
	"strings"

	"github.com/cloudwego/eino/schema"

	"verifsim/core"
	"verifsim/kernel"
)

type kind int

const (
	kPipe kind = iota
	kArray
	kConv
	kCopy
	kChild
	kMerge
)

var kindNames = []string{"pipe", "array", "conv", "copy", "child", "merge"}

// conv behaviours
const (
	cTag = iota
	cSkip
	cErr
	cPanic
)

type node struct {
	id    int
	kind  kind
	src   []*node
	idx   int // child index
	items []pitem
	arr   []string // array sources: the slice handed to the library
	cap   int
	cmode int
	cmod  int
	stub  bool // producer keeps sending after it was told closed
	uni   map[string]bool
	rd    *schema.StreamReader[string]
	wr    *schema.StreamWriter[string]
	// leaf behaviour
	leaf   bool
	want   int // -1: read to EOF
	claims []claim
	nchild int
}

type pitem struct {
	name  string
	isErr bool
}

type itemErr struct{ name string }

func (e *itemErr) Error() string { return "ITEM<" + e.name + ">" }

// Unwrap: every other error item wraps io.EOF (an error item is an item like any other, also
// when errors.Is(err, io.EOF) holds for it; only the bare io.EOF ends a stream).
func (e *itemErr) Unwrap() error {
	if len(e.name) > 0 && (e.name[len(e.name)-1]-'0')%2 == 1 {
		return io.EOF
	}
	return nil
}

type claim struct {
	obs  []string
	eof  bool
	drop func(string) bool
	from string
}

type sendRec struct {
	item   string
	closed bool
	start  int
}

type run struct {
	s      *kernel.Sim
	t      *kernel.Tape
	o      *core.Outcome
	nodes  []*node
	open   []*node
	carved bool
	// observations
	sends     map[int][]sendRec
	prodClose map[int]bool
	got       map[int][]string
	gotEOF    map[int]bool
	closedAt  map[int]int
	convSeen  map[int][]string
}

func (n *node) label() string { return fmt.Sprintf("%s%d", kindNames[n.kind], n.id) }

func (r *run) add(n *node) *node {
	n.id = len(r.nodes)
	r.nodes = append(r.nodes, n)
	return n
}

func (n *node) convAffects(x string) bool {
	if n.cmode == cTag {
		return false
	}
	h := uint64(1469598103934665603)
	for i := 0; i < len(x); i++ {
		h = (h ^ uint64(x[i])) * 1099511628211
	}
	h ^= uint64(n.id) * 0x9e3779b97f4a7c15
	return int((h>>17)%uint64(n.cmod)) == 0
}

// convOut is the model of a convert node on one (non-error) input item.
func (n *node) convOut(x string) (out string, dropped bool) {
	tag := fmt.Sprintf("c%d", n.id)
	if n.convAffects(x) {
		switch n.cmode {
		case cSkip:
			return "", true
		case cErr:
			return "!" + tag + "!" + x, false
		case cPanic:
			return "!panic:" + tag + ":" + x, false
		}
	}
	return tag + "(" + x + ")", false
}

func isErrName(x string) bool { return strings.HasPrefix(x, "!") }

func (n *node) universe() map[string]bool {
	if n.uni != nil {
		return n.uni
	}
	u := map[string]bool{}
	switch n.kind {
	case kPipe, kArray:
		for _, it := range n.items {
			if it.isErr {
				u["!"+it.name] = true
			} else {
				u[it.name] = true
			}
		}
	case kConv:
		for x := range n.src[0].universe() {
			if isErrName(x) {
				u[x] = true
				continue
			}
			if y, d := n.convOut(x); !d {
				u[y] = true
			}
		}
	case kCopy, kChild:
		u = n.src[0].universe()
	case kMerge:
		for _, s := range n.src {
			for x := range s.universe() {
				u[x] = true
			}
		}
	}
	n.uni = u
	return u
}

func overlap(a, b map[string]bool) bool {
	for x := range a {
		if b[x] {
			return true
		}
	}
	return false
}

// ---- plan ----------------------------------------------------------------------

func (r *run) newSource() *node {
	t := r.t
	n := &node{}
	if t.PlanBool(25) {
		n.kind = kArray
	} else {
		n.kind = kPipe
		n.cap = t.Plan(4)
		n.stub = t.PlanBool(20)
	}
	r.add(n)
	k := t.Plan(6)
	if t.PlanBool(20) {
		k = 6 + t.Plan(8) // longer than the forwarders' buffer of 5
	}
	for i := 0; i < k; i++ {
		it := pitem{name: fmt.Sprintf("s%d.%d", n.id, i)}
		if n.kind == kPipe && t.PlanBool(12) {
			it.isErr = true
		}
		n.items = append(n.items, it)
	}
	r.open = append(r.open, n)
	return n
}

func (r *run) takeOpen(i int) *node {
	n := r.open[i]
	r.open = append(r.open[:i], r.open[i+1:]...)
	return n
}

func (r *run) plan() {
	t := r.t
	ns := 1 + t.Plan(3)
	for i := 0; i < ns; i++ {
		r.newSource()
	}
	ops := t.Plan(7)
	for i := 0; i < ops; i++ {
		switch t.Plan(3) {
		case 0: // copy
			if len(r.open) > 10 {
				continue
			}
			src := r.takeOpen(t.Plan(len(r.open)))
			cp := r.add(&node{kind: kCopy, src: []*node{src}, nchild: 2 + t.Plan(3)})
			for k := 0; k < cp.nchild; k++ {
				r.open = append(r.open, r.add(&node{kind: kChild, src: []*node{cp}, idx: k}))
			}
		case 1: // convert
			src := r.takeOpen(t.Plan(len(r.open)))
			c := r.add(&node{kind: kConv, src: []*node{src}, cmode: t.Plan(3), cmod: 2 + t.Plan(3)})
			r.open = append(r.open, c)
		case 2: // merge
			k := 2 + t.Plan(3)
			if t.PlanBool(15) {
				k = 6 + t.Plan(2) // reflect.Select path
			}
			var srcs []*node
			for len(srcs) < k {
				var cand *node
				if len(r.open) > 0 && !t.PlanBool(25) {
					cand = r.takeOpen(t.Plan(len(r.open)))
				} else {
					cand = r.newSource()
					r.takeOpen(len(r.open) - 1)
				}
				bad := false
				for _, s := range srcs {
					if overlap(s.universe(), cand.universe()) {
						bad = true
					}
				}
				if bad {
					// make it distinguishable with a tagging convert; if pass-through error items
					// still collide, give up on this candidate (it becomes a leaf)
					cand = r.add(&node{kind: kConv, src: []*node{cand}, cmode: cTag, cmod: 2})
					for _, s := range srcs {
						if overlap(s.universe(), cand.universe()) {
							r.open = append(r.open, cand)
							cand = nil
							break
						}
					}
					if cand == nil {
						continue
					}
				}
				if t.PlanBool(25) && cand.kind != kArray {
					// a convert that may panic inside the forwarder goroutine (always directly
					// below a merge, so the panic happens in framework code, not in the consumer)
					cand = r.add(&node{kind: kConv, src: []*node{cand}, cmode: cPanic, cmod: 3 + t.Plan(4)})
				}
				srcs = append(srcs, cand)
			}
			m := r.add(&node{kind: kMerge, src: srcs})
			r.open = append(r.open, m)
		}
	}
	for _, n := range r.open {
		n.leaf = true
		switch t.Plan(4) {
		case 0:
			n.want = t.Plan(4)
		default:
			n.want = -1
		}
	}
}

// pathFree reports whether the (unique) path from pipe p up to reader l has no
// forwarder goroutine on it: no merge on the path takes a convert or copy-child source.
func (r *run) pathFree(l, p *node) bool {
	if l == p {
		return true
	}
	for _, s := range l.src {
		if r.derives(s, p) {
			if l.kind == kMerge && (s.kind == kConv || s.kind == kChild) {
				return false
			}
			return r.pathFree(s, p)
		}
	}
	return false
}

func (r *run) render() string {
	var sb strings.Builder
	for _, n := range r.nodes {
		fmt.Fprintf(&sb, "%s", n.label())
		switch n.kind {
		case kPipe:
			fmt.Fprintf(&sb, "(cap=%d stubborn=%v items=%s)", n.cap, n.stub, itemsStr(n.items))
		case kArray:
			fmt.Fprintf(&sb, "(items=%s)", itemsStr(n.items))
		case kConv:
			fmt.Fprintf(&sb, "(%s mode=%d mod=%d)", n.src[0].label(), n.cmode, n.cmod)
		case kCopy:
			fmt.Fprintf(&sb, "(%s n=%d)", n.src[0].label(), n.nchild)
		case kChild:
			fmt.Fprintf(&sb, "(%s #%d)", n.src[0].label(), n.idx)
		case kMerge:
			var l []string
			for _, s := range n.src {
				l = append(l, s.label())
			}
			fmt.Fprintf(&sb, "(%s)", strings.Join(l, ","))
		}
		if n.leaf {
			fmt.Fprintf(&sb, " LEAF want=%d", n.want)
		}
		sb.WriteString("; ")
	}
	return sb.String()
}

func itemsStr(it []pitem) string {
	var l []string
	for _, i := range it {
		if i.isErr {
			l = append(l, "!"+i.name)
		} else {
			l = append(l, i.name)
		}
	}
	return "[" + strings.Join(l, " ") + "]"
}

// ---- execution -------------------------------------------------------------------

var panicRe = regexp.MustCompile(`PANIC<([^|>]*)\|([^>]*)>`)

func itemName(chunk string, err error) string {
	if err == nil {
		return chunk
	}
	var ie *itemErr
	if errors.As(err, &ie) {
		return "!" + ie.name
	}
	if m := panicRe.FindStringSubmatch(err.Error()); m != nil {
		return "!panic:" + m[1] + ":" + m[2]
	}
	// unknown error: keep it stable across processes (no stacks, no addresses)
	m := err.Error()
	if i := strings.IndexByte(m, '\n'); i >= 0 {
		m = m[:i]
	}
	return "?" + hexRe.ReplaceAllString(m, "0x?")
}

var hexRe = regexp.MustCompile(`0x[0-9a-fA-F]+`)

// carve lays out the array sources the way callers hand them to the library: most of them
// are adjacent sub-slices of one batch (their spare capacity overlaps the neighbour's items),
// the others exact slices.
func (r *run) carve() {
	r.carved = true
	total := 0
	for _, x := range r.nodes {
		if x.kind == kArray {
			total += len(x.items)
		}
	}
	batch := make([]string, 0, total+2)
	for _, x := range r.nodes {
		if x.kind != kArray {
			continue
		}
		if x.id%3 != 0 {
			off := len(batch)
			for _, it := range x.items {
				batch = append(batch, it.name)
			}
			x.arr = batch[off:len(batch)]
		} else {
			x.arr = make([]string, 0, len(x.items))
			for _, it := range x.items {
				x.arr = append(x.arr, it.name)
			}
		}
	}
}

func (r *run) build(n *node) *schema.StreamReader[string] {
	if n.rd != nil {
		return n.rd
	}
	switch n.kind {
	case kPipe:
		n.rd, n.wr = schema.Pipe[string](n.cap)
	case kArray:
		if !r.carved {
			r.carve()
		}
		arr := n.arr
		n.rd = schema.StreamReaderFromArray(arr)
	case kConv:
		src := r.build(n.src[0])
		nn := n
		n.rd = schema.StreamReaderWithConvert(src, func(x string) (string, error) {
			out, dropped := nn.convOut(x)
			if dropped {
				return "", schema.ErrNoValue
			}
			if strings.HasPrefix(out, "!panic:") {
				panic(fmt.Sprintf("PANIC<c%d|%s>", nn.id, x))
			}
			if isErrName(out) {
				return "", &itemErr{name: out[1:]}
			}
			return out, nil
		})
	case kCopy:
		src := r.build(n.src[0])
		cs := src.Copy(n.nchild)
		k := 0
		for _, c := range r.nodes {
			if c.kind == kChild && c.src[0] == n {
				c.rd = cs[c.idx]
				k++
			}
		}
		n.rd = src
	case kChild:
		r.build(n.src[0])
	case kMerge:
		var srs []*schema.StreamReader[string]
		for _, s := range n.src {
			srs = append(srs, r.build(s))
		}
		n.rd = schema.MergeStreamReaders(srs)
	}
	return n.rd
}

func (r *run) producer(n *node) {
	s := r.s
	defer func() {
		if p := recover(); p != nil {
			r.o.Violate("C08/panic-in-producer", fmt.Sprintf("%s: %v", n.label(), p))
		}
	}()
	told := false
	for _, it := range n.items {
		var closed bool
		start := s.Step()
		if it.isErr {
			closed = n.wr.Send("", &itemErr{name: it.name})
		} else {
			closed = n.wr.Send(it.name, nil)
		}
		nm := it.name
		if it.isErr {
			nm = "!" + nm
		}
		r.sends[n.id] = append(r.sends[n.id], sendRec{item: nm, closed: closed, start: start})
		s.Log(fmt.Sprintf("send %s %s closed=%v", n.label(), nm, closed))
		if closed {
			told = true
			if !n.stub {
				break
			}
		} else if told {
			r.o.Violate("C08/send-accepted-after-closed", fmt.Sprintf("%s accepted %s after an earlier Send had returned closed", n.label(), nm))
		}
	}
	n.wr.Close()
	r.prodClose[n.id] = true
	s.Log("prodclose " + n.label())
}

func (r *run) consumer(n *node) {
	s := r.s
	defer func() {
		if p := recover(); p != nil {
			r.o.Violate("C08/panic-in-consumer", fmt.Sprintf("%s: %v", n.label(), p))
		}
	}()
	for i := 0; n.want < 0 || i < n.want; i++ {
		s.Yield("cons.recv")
		c, err := n.rd.Recv()
		if err == io.EOF {
			r.gotEOF[n.id] = true
			s.Log("eof " + n.label())
			break
		}
		nm := itemName(c, err)
		r.got[n.id] = append(r.got[n.id], nm)
		s.Log("recv " + n.label() + " " + nm)
	}
	s.Yield("cons.close")
	n.rd.Close()
	r.closedAt[n.id] = s.Step()
	s.Log("close " + n.label())
}

// RunOnce executes one simulated run.
func RunOnce(t *kernel.Tape, opt core.Opts) *core.Outcome {
	o := &core.Outcome{}
	r := &run{t: t, o: o, sends: map[int][]sendRec{}, prodClose: map[int]bool{}, got: map[int][]string{},
		gotEOF: map[int]bool{}, closedAt: map[int]int{}, convSeen: map[int][]string{}}
	r.plan()
	o.Sample = r.render()
	h := sha256.Sum256([]byte(o.Sample))
	o.PlanHash = hex.EncodeToString(h[:8])
	s := kernel.New(t, 200)
	defer s.Close()
	s.KeepTrace = opt.KeepTrace
	r.s = s
	s.Go("main", func() {
		defer func() {
			if p := recover(); p != nil {
				o.Violate("C08/panic-in-build", fmt.Sprint(p))
			}
		}()
		for _, n := range r.nodes {
			if n.leaf {
				r.build(n)
			}
		}
		for _, n := range r.nodes {
			n := n
			if n.kind == kPipe {
				s.Go("prod:"+n.label(), func() { r.producer(n) })
			}
			if n.leaf {
				s.Go("cons:"+n.label(), func() { r.consumer(n) })
			}
		}
	})
	res := s.Run(20000)
	core.FinishKernel(o, s, res, "C08")
	if o.Infra != "" {
		return o
	}
	if res.Deadlock {
		o.Violate("C08/deadlock", "unfinished: "+strings.Join(res.Unfinished, ",")+"\n"+stacks(res.Blocked))
	} else if len(res.Blocked) > 0 && !res.Budget {
		o.Violate("C08/goroutine-left-behind:"+topFn(res.Blocked[0]), stacks(res.Blocked))
	}
	if !res.Deadlock && !res.Budget {
		r.check()
		// every reader was closed by its consumer: nothing the operators created may stay open
		if open := core.OpenStreams(s.Events()); len(open) > 0 {
			o.Violate("C08/stream-neither-closed-nor-drained", strings.Join(open, "; "))
		}
	}
	for _, n := range r.nodes {
		o.Stat("node."+kindNames[n.kind], 1)
		if n.kind == kConv && n.cmode == cPanic {
			o.Stat("fault.conv_may_panic", 1)
		}
	}
	o.Stat("poll_seam", res.PollSeam)
	return o
}

func topFn(g kernel.GInfo) string {
	lines := strings.Split(g.Stack, "\n")
	for i := 1; i < len(lines); i += 2 {
		f := lines[i]
		if strings.HasPrefix(f, "verifsim/kernel.") || strings.HasPrefix(f, "runtime.") || strings.HasPrefix(f, "sync.") ||
			strings.HasPrefix(f, "github.com/cloudwego/eino/internal/verifhook") {
			continue
		}
		if k := strings.LastIndexByte(f, '('); k > 0 {
			f = f[:k]
		}
		f = strings.TrimPrefix(f, "github.com/cloudwego/eino/")
		return f
	}
	return g.State
}

func stacks(gs []kernel.GInfo) string {
	var sb strings.Builder
	for i, g := range gs {
		if i >= 6 {
			fmt.Fprintf(&sb, "... and %d more\n", len(gs)-i)
			break
		}
		st := g.Stack
		if len(st) > 1500 {
			st = st[:1500] + "…"
		}
		sb.WriteString(st + "\n\n")
	}
	return sb.String()
}

// ---- oracle ----------------------------------------------------------------------

func (r *run) viol(class, msg string) { r.o.Violate(class, msg) }

func noDrop(string) bool { return false }

func filter(xs []string, drop func(string) bool) []string {
	var out []string
	for _, x := range xs {
		if !drop(x) {
			out = append(out, x)
		}
	}
	return out
}

func isPrefix(a, b []string) bool {
	if len(a) > len(b) {
		return false
	}
	for i := range a {
		if a[i] != b[i] {
			return false
		}
	}
	return true
}

func (r *run) check() {
	// leaves
	for _, n := range r.nodes {
		if !n.leaf {
			continue
		}
		obs := r.got[n.id]
		seen := map[string]bool{}
		for _, x := range obs {
			if seen[x] {
				r.viol("C08/item-delivered-twice", fmt.Sprintf("%s received %s twice: %v", n.label(), x, obs))
			}
			seen[x] = true
		}
		if n.want < 0 && !r.gotEOF[n.id] {
			r.viol("C08/no-eof", fmt.Sprintf("%s read until the end but never saw EOF", n.label()))
		}
		n.claims = append(n.claims, claim{obs: obs, eof: r.gotEOF[n.id], drop: noDrop, from: n.label()})
	}
	for i := len(r.nodes) - 1; i >= 0; i-- {
		n := r.nodes[i]
		switch n.kind {
		case kPipe, kArray:
			var full []string
			complete := true
			if n.kind == kArray {
				for _, it := range n.items {
					full = append(full, it.name)
				}
			} else {
				for _, sr := range r.sends[n.id] {
					if !sr.closed {
						full = append(full, sr.item)
					}
				}
				complete = r.prodClose[n.id]
			}
			for _, c := range n.claims {
				f := filter(full, c.drop)
				if !isPrefix(c.obs, f) {
					r.viol("C08/sequence-mismatch", fmt.Sprintf("reader %s: items attributed to %s are %v, which is not a prefix of what was sent %v", c.from, n.label(), c.obs, f))
				} else if c.eof && (len(c.obs) != len(f) || !complete) {
					r.viol("C08/eof-before-end", fmt.Sprintf("reader %s saw EOF but %s delivered %v of %v (producer closed=%v)", c.from, n.label(), c.obs, f, complete))
				}
			}
		case kConv:
			for _, c := range n.claims {
				var obs []string
				ended := false
				bad := false
				for _, y := range c.obs {
					if ended {
						r.viol("C08/item-after-panic", fmt.Sprintf("reader %s: %s delivered %s after its forwarder had panicked", c.from, n.label(), y))
						bad = true
						break
					}
					x, ok := n.untag(y)
					if !ok {
						r.viol("C08/convert-mismatch", fmt.Sprintf("reader %s: %s delivered %s, which is not the image of any source item", c.from, n.label(), y))
						bad = true
						break
					}
					if strings.HasPrefix(y, fmt.Sprintf("!panic:c%d:", n.id)) {
						ended = true
					}
					obs = append(obs, x)
				}
				if bad {
					continue
				}
				drop := c.drop
				nn := n
				n.src[0].claims = append(n.src[0].claims, claim{obs: obs, eof: c.eof && !ended, from: c.from,
					drop: func(x string) bool {
						if isErrName(x) {
							return drop(x)
						}
						y, d := nn.convOut(x)
						return d || drop(y)
					}})
			}
		case kChild:
			n.src[0].claims = append(n.src[0].claims, n.claims...)
			// pairwise consistency is checked at the copy node
		case kCopy:
			cl := n.claims
			for a := 0; a < len(cl); a++ {
				for b := a + 1; b < len(cl); b++ {
					x := filter(cl[a].obs, cl[b].drop)
					y := filter(cl[b].obs, cl[a].drop)
					if !isPrefix(x, y) && !isPrefix(y, x) {
						r.viol("C08/copies-disagree", fmt.Sprintf("copies of %s saw different sequences: via %s %v, via %s %v", n.src[0].label(), cl[a].from, x, cl[b].from, y))
					}
				}
			}
			n.src[0].claims = append(n.src[0].claims, cl...)
		case kMerge:
			for _, c := range n.claims {
				per := make([][]string, len(n.src))
				for _, y := range c.obs {
					found := -1
					for k, s := range n.src {
						if s.universe()[y] {
							found = k
							break
						}
					}
					if found < 0 {
						r.viol("C08/alien-item", fmt.Sprintf("reader %s: merge %s delivered %s, which none of its sources can produce", c.from, n.label(), y))
						continue
					}
					per[found] = append(per[found], y)
				}
				for k, s := range n.src {
					s.claims = append(s.claims, claim{obs: per[k], eof: c.eof, drop: c.drop, from: c.from})
				}
			}
		}
	}
	// writer told on its next send once every derived reader is closed (forwarder-free paths)
	for _, p := range r.nodes {
		if p.kind != kPipe {
			continue
		}
		last, all, free := -1, true, true
		for _, l := range r.nodes {
			if !l.leaf || !r.derives(l, p) {
				continue
			}
			if !r.pathFree(l, p) {
				free = false
			}
			at, ok := r.closedAt[l.id]
			if !ok {
				all = false
			}
			if at > last {
				last = at
			}
		}
		if !all || !free || last < 0 {
			continue
		}
		for _, sr := range r.sends[p.id] {
			if sr.start > last && !sr.closed {
				r.viol("C08/writer-not-told", fmt.Sprintf("%s: Send(%s) started at step %d, after every derived reader had been closed (step %d), and was accepted", p.label(), sr.item, sr.start, last))
			}
		}
		r.o.Stat("probe.all_readers_closed_checked", 1)
	}
}

func (r *run) derives(l, p *node) bool {
	if l == p {
		return true
	}
	for _, s := range l.src {
		if r.derives(s, p) {
			return true
		}
	}
	return false
}

// untag inverts the convert model on one delivered item.
func (n *node) untag(y string) (string, bool) {
	tag := fmt.Sprintf("c%d", n.id)
	var x string
	switch {
	case strings.HasPrefix(y, tag+"(") && strings.HasSuffix(y, ")"):
		x = y[len(tag)+1 : len(y)-1]
	case strings.HasPrefix(y, "!"+tag+"!"):
		x = y[len(tag)+2:]
	case strings.HasPrefix(y, "!panic:"+tag+":"):
		x = y[len("!panic:"+tag+":"):]
	case isErrName(y) && n.src[0].universe()[y]:
		return y, true // pass-through error item
	default:
		return "", false
	}
	if !n.src[0].universe()[x] {
		return "", false
	}
	if want, d := n.convOut(x); d || want != y {
		return "", false
	}
	return x, true
}

func init() {
	core.Register(&core.Profile{
		RaceQuick: 200, RaceThorough: 3000, ID: "C08", Engine: "streamsim", Run: RunOnce, Quick: 6000, Thorough: 150000, ThoroughSeeds: 3,
		Rule:   "each run draws an operator tree (1-3+ sources: Pipe cap 0-3 or array, up to 6 copy/convert/merge operations incl. the >5-source reflect.Select path and converts that skip, fail or panic inside a forwarder), producer tasks and one consumer task per leaf (reads k items or to EOF, then closes), and one schedule; a run is non-trivial when >=2 tasks were live and >=1 step had >=2 candidates; distinct = distinct (plan hash, schedule signature); array sources are adjacent sub-slices of one batch (spare capacity overlapping the neighbour) or exact slices; every other error item wraps io.EOF",
		Real:   []string{"schema/stream.go", "schema/select.go (blocking and single-ready cases)", "Go runtime channels, sync.Once, atomics"},
		Stub:   []string{"producers and consumers (harness tasks)", "convert functions", "multi-ready select choice (ready-poll seam)"},
		Faults: []string{"early reader close", "error items", "convert error", "convert panic in forwarder", "stubborn producer", "schedule perturbation"},
	})
	sort.Strings(nil)
}
