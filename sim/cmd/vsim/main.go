// Command vsim is the runner of the deterministic simulation checks.
//
//	vsim check   -prop C08 -tier quick|thorough      search, minimise, replay-verify, evidence
//	vsim worker  -prop C08 -seed S -from a -to b -out f   (internal) a contiguous range of runs
//	vsim run     -prop C08 -seed S -run i [-tape f] [-trace]   one run, prints the outcome
//	vsim replay  -file replays/x.json                re-executes a replay file
//	vsim dettest -prop C08 -n N -procs P             determinism self-test
package main

import (
	"encoding/json"
	"flag"
	"fmt"
	"os"
	"runtime"
	"runtime/debug"
	"time"

	"verifsim/core"
	"verifsim/kernel"

	_ "verifsim/agentsim"
	_ "verifsim/graphsim"
	_ "verifsim/streamsim"
)

const defaultSeed = 20261002

type runRecord struct {
	Prop      string         `json:"property"`
	Seed      int64          `json:"seed"`
	Run       int            `json:"run"`
	Outcome   *core.Outcome  `json:"outcome"`
	TraceHash string         `json:"trace_hash"`
	SchedSig  string         `json:"sched_sig"`
	Steps     int            `json:"steps"`
	Choices   int            `json:"choices"`
	MaxLive   int            `json:"max_live"`
	Policy    string         `json:"policy"`
	P         []int          `json:"P,omitempty"`
	S         []int          `json:"S,omitempty"`
	UsedP     int            `json:"used_p"`
	UsedS     int            `json:"used_s"`
	Trace     []string       `json:"trace,omitempty"`
	Kernel    map[string]int `json:"kernel,omitempty"`
	Extra     map[string]any `json:"extra,omitempty"`
}

func execRun(p *core.Profile, t *kernel.Tape, seed int64, run int, keepTrace, keepTape bool) *runRecord {
	o := p.Run(t, core.Opts{KeepTrace: keepTrace})
	rec := &runRecord{Prop: p.ID, Seed: seed, Run: run, Outcome: o}
	if o.Res != nil {
		rec.TraceHash, rec.SchedSig = o.Res.TraceHash, o.Res.SchedSig
		rec.Steps, rec.Choices, rec.MaxLive, rec.Policy = o.Res.Steps, o.Res.Choices, o.Res.MaxLive, o.Res.Policy
		rec.Kernel = map[string]int{"snapshots": o.Res.Snapshots, "poll_seam": o.Res.PollSeam, "orders": o.Res.Orders}
	}
	rec.UsedP, rec.UsedS = t.Used()
	if keepTape {
		rec.P, rec.S = t.P, t.S
	}
	return rec
}

func main() {
	if len(os.Args) < 2 {
		fmt.Fprintln(os.Stderr, "usage: vsim check|worker|run|replay|dettest ...")
		os.Exit(2)
	}
	debug.SetGCPercent(400)
	cmd := os.Args[1]
	fs := flag.NewFlagSet(cmd, flag.ExitOnError)
	prop := fs.String("prop", "", "property id")
	tier := fs.String("tier", "quick", "quick|thorough")
	seed := fs.Int64("seed", 0, "seed (default VERIF_SEED or a fixed constant)")
	from := fs.Int("from", 0, "")
	to := fs.Int("to", 0, "")
	out := fs.String("out", "", "")
	runIdx := fs.Int("run", 0, "")
	tapeFile := fs.String("tape", "", "")
	trace := fs.Bool("trace", false, "")
	file := fs.String("file", "", "")
	n := fs.Int("n", 200, "")
	procs := fs.Int("procs", 30, "")
	hashes := fs.Bool("hashes", false, "")
	runs := fs.Int("runs", 0, "override number of runs")
	_ = fs.Parse(os.Args[2:])
	if *seed == 0 {
		*seed = envSeed()
	}
	switch cmd {
	case "worker":
		os.Exit(workerMain(*prop, *seed, *from, *to, *out, *hashes))
	case "run":
		os.Exit(runMain(*prop, *seed, *runIdx, *tapeFile, *trace))
	case "check":
		os.Exit(checkMain(*prop, *tier, *seed, *runs))
	case "replay":
		os.Exit(replayMain(*file))
	case "dettest":
		os.Exit(dettestMain(*prop, *seed, *n, *procs))
	default:
		fmt.Fprintln(os.Stderr, "unknown command", cmd)
		os.Exit(2)
	}
}

func envSeed() int64 {
	if v := os.Getenv("VERIF_SEED"); v != "" {
		var s int64
		if _, err := fmt.Sscan(v, &s); err == nil && s != 0 {
			return s
		}
	}
	return defaultSeed
}

func profile(id string) *core.Profile {
	p := core.Profiles[id]
	if p == nil {
		fmt.Fprintln(os.Stderr, "unknown property", id)
		os.Exit(2)
	}
	return p
}

// runMain executes a single run and prints its record as JSON.
func runMain(prop string, seed int64, run int, tapeFile string, trace bool) int {
	p := profile(prop)
	var t *kernel.Tape
	if tapeFile != "" {
		b, err := os.ReadFile(tapeFile)
		if err != nil {
			fmt.Fprintln(os.Stderr, err)
			return 2
		}
		var tp struct{ P, S []int }
		if err := json.Unmarshal(b, &tp); err != nil {
			fmt.Fprintln(os.Stderr, err)
			return 2
		}
		t = kernel.NewReplayTape(tp.P, tp.S)
	} else {
		t = kernel.NewSearchTape(seed, run)
	}
	watchdog(120 * time.Second)
	rl := newRaceLog()
	rec := execRun(p, t, seed, run, trace, true)
	for _, v := range rl.fresh() {
		rec.Outcome.Violate(prop+"/"+v.Class, v.Msg)
	}
	enc := json.NewEncoder(os.Stdout)
	_ = enc.Encode(rec)
	if rec.Outcome.Infra != "" {
		return 2
	}
	if len(rec.Outcome.Violations) > 0 {
		return 1
	}
	return 0
}

func watchdog(d time.Duration) *time.Timer {
	return time.AfterFunc(d, func() {
		fmt.Fprintln(os.Stderr, "WATCHDOG: run exceeded", d)
		buf := make([]byte, 1<<20)
		k := runtime.Stack(buf, true)
		os.Stderr.Write(buf[:k])
		os.Exit(3)
	})
}
