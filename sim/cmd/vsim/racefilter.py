#!/usr/bin/env python3
"""Reads race detector output; prints the reports in which BOTH accesses happen in eino code
(top frame of each access stack in github.com/cloudwego/eino/, not in internal/verifhook)."""
import sys,re
txt=sys.stdin.read()
reps=txt.split('==================\n')
out=[]
for r in reps:
    if 'DATA RACE' not in r: continue
    blocks=re.split(r'\n\n',r)
    tops=[]
    for b in blocks:
        m=re.match(r'\s*(Write|Read|Previous write|Previous read|Atomic \w+|Previous atomic \w+) (at|of) ',b.strip()) if b.strip() else None
        if m:
            lines=b.strip().split('\n')
            fr=[l.strip() for l in lines[1:] if not l.startswith('      ') and not l.strip().startswith('runtime.')]
            tops.append(fr[0] if fr else '')
    if len(tops)>=2 and all(t.startswith('github.com/cloudwego/eino/') and 'verifhook' not in t for t in tops[:2]):
        out.append(r)
print(len(out),'eino-only reports of',sum(1 for r in reps if 'DATA RACE' in r))
for r in out[:int(sys.argv[1]) if len(sys.argv)>1 else 3]:
    print(r[:2500]); print('------')
