package main

import (
	"encoding/json"
	"fmt"
	"os"
	"sort"
	"time"

	"verifsim/core"
	"verifsim/kernel"
)

// workerOut is what one worker process reports about its range of runs.
type workerOut struct {
	From, To   int
	Runs       int
	Nontrivial int
	Pairs      []string // plan hash + schedule signature of non-trivial runs
	Plans      map[string]int
	Steps      int64
	Choices    int64
	Snapshots  int64
	Stats      map[string]int
	Policies   map[string]int
	Samples    []map[string]any
	Violations []*runRecord
	Infra      []*runRecord
	Hashes     []string // per-run trace hash (determinism self-test)
	WallS      float64
}

func workerMain(prop string, seed int64, from, to int, out string, hashes bool) int {
	p := profile(prop)
	w := &workerOut{From: from, To: to, Stats: map[string]int{}, Policies: map[string]int{}, Plans: map[string]int{}}
	start := time.Now()
	wd := watchdog(180 * time.Second)
	for i := from; i < to; i++ {
		if out != "" {
			_ = os.WriteFile(out+".cur", []byte(fmt.Sprint(i)), 0o644)
		}
		wd.Reset(180 * time.Second)
		t := kernel.NewSearchTape(seed, i)
		rec := execRun(p, t, seed, i, false, false)
		o := rec.Outcome
		w.Runs++
		w.Steps += int64(rec.Steps)
		w.Choices += int64(rec.Choices)
		if o.Res != nil {
			w.Snapshots += int64(o.Res.Snapshots)
		}
		w.Policies[rec.Policy]++
		for k, v := range o.Stats {
			w.Stats[k] += v
		}
		if hashes {
			w.Hashes = append(w.Hashes, rec.TraceHash+"/"+fmt.Sprint(o.Classes()))
		}
		if o.Infra != "" {
			rec.P, rec.S = t.P, t.S
			w.Infra = append(w.Infra, rec)
			if len(w.Infra) > 3 {
				break
			}
			continue
		}
		if o.Nontrivial {
			w.Nontrivial++
			w.Pairs = append(w.Pairs, o.PlanHash+rec.SchedSig)
			w.Plans[o.PlanHash]++
		}
		if len(o.Violations) > 0 {
			rec.P, rec.S = t.P, t.S
			if len(w.Violations) < 40 {
				w.Violations = append(w.Violations, rec)
			} else {
				// keep only classes for counting
				w.Violations = append(w.Violations, &runRecord{Prop: prop, Seed: seed, Run: i, Outcome: &core.Outcome{Violations: o.Violations}})
			}
		}
		if len(w.Samples) < 2 && o.Nontrivial && (i-from)%37 == 0 {
			w.Samples = append(w.Samples, map[string]any{"run": i, "plan": o.Sample, "policy": rec.Policy, "steps": rec.Steps,
				"choice_points": rec.Choices, "schedule_signature": rec.SchedSig})
		}
	}
	wd.Stop()
	w.WallS = time.Since(start).Seconds()
	sort.Strings(w.Pairs)
	b, _ := json.Marshal(w)
	if out == "" {
		os.Stdout.Write(b)
	} else if err := os.WriteFile(out, b, 0o644); err != nil {
		fmt.Fprintln(os.Stderr, err)
		return 2
	}
	return 0
}
