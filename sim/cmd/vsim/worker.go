package main

import (
	"encoding/json"
	"fmt"
	"os"
	"regexp"
	"sort"
	"strings"
	"time"

	"verifsim/core"
	"verifsim/kernel"
)

// workerOut is what one worker process reports about its range of runs.
type workerOut struct {
	From, To   int
	Runs       int
	Nontrivial int
	Pairs      []string // plan hash + schedule signature of non-trivial runs
	Plans      map[string]int
	Steps      int64
	Choices    int64
	Snapshots  int64
	Stats      map[string]int
	Policies   map[string]int
	Samples    []map[string]any
	Violations []*runRecord
	Infra      []*runRecord
	Hashes     []string // per-run trace hash (determinism self-test)
	WallS      float64
}

// raceLog follows the race detector's log file of this process (GORACE=log_path=...).
type raceLog struct {
	path string
	off  int64
}

func newRaceLog() *raceLog {
	if !kernel.RaceBuild {
		return nil
	}
	base := os.Getenv("VSIM_RACELOG")
	if base == "" {
		return nil
	}
	return &raceLog{path: fmt.Sprintf("%s.%d", base, os.Getpid())}
}

var raceAccessRe = regexp.MustCompile(`(?m)^(Write|Read|Previous write|Previous read|Atomic \w+|Previous atomic \w+) (at|of) `)

// fresh returns the reports written since the last call in which both accesses are in eino code.
func (r *raceLog) fresh() []core.Violation {
	if r == nil {
		return nil
	}
	f, err := os.Open(r.path)
	if err != nil {
		return nil
	}
	defer f.Close()
	st, _ := f.Stat()
	if st.Size() <= r.off {
		return nil
	}
	buf := make([]byte, st.Size()-r.off)
	f.ReadAt(buf, r.off)
	r.off = st.Size()
	var out []core.Violation
	for _, rep := range strings.Split(string(buf), "==================\n") {
		if !strings.Contains(rep, "DATA RACE") {
			continue
		}
		var tops []string
		for _, blk := range strings.Split(rep, "\n\n") {
			blk = strings.TrimSpace(blk)
			if !raceAccessRe.MatchString(blk) {
				continue
			}
			lines := strings.Split(blk, "\n")
			start := 0
			for i, l := range lines {
				if raceAccessRe.MatchString(l) {
					start = i + 1
					break
				}
			}
			for _, l := range lines[start:] {
				if strings.HasPrefix(l, "      ") {
					continue
				}
				if strings.HasPrefix(strings.TrimSpace(l), "runtime.") {
					continue // slicecopy, memmove, map access ...: the access belongs to the caller
				}
				tops = append(tops, strings.TrimSpace(l))
				break
			}
		}
		if len(tops) < 2 {
			continue
		}
		ok := true
		for _, t := range tops[:2] {
			if !strings.HasPrefix(t, "github.com/cloudwego/eino/") || strings.Contains(t, "verifhook") {
				ok = false
			}
		}
		if !ok {
			continue
		}
		a, b := shortFn(tops[0]), shortFn(tops[1])
		if a > b {
			a, b = b, a
		}
		out = append(out, core.Violation{Class: "data-race:" + a + "<>" + b, Msg: rep})
	}
	return out
}

func shortFn(f string) string {
	f = strings.TrimPrefix(f, "github.com/cloudwego/eino/")
	if i := strings.Index(f, "[go.shape"); i >= 0 { // generic instantiation noise
		j := strings.LastIndex(f, "]")
		if j > i {
			f = f[:i] + "[...]" + f[j+1:]
		}
	}
	if i := strings.LastIndexByte(f, '('); i > 0 && strings.HasSuffix(f, ")") && !strings.Contains(f[i:], "*") {
		f = f[:i]
	}
	return f
}

func workerMain(prop string, seed int64, from, to int, out string, hashes bool) int {
	p := profile(prop)
	rl := newRaceLog()
	w := &workerOut{From: from, To: to, Stats: map[string]int{}, Policies: map[string]int{}, Plans: map[string]int{}}
	start := time.Now()
	wd := watchdog(180 * time.Second)
	for i := from; i < to; i++ {
		if out != "" {
			_ = os.WriteFile(out+".cur", []byte(fmt.Sprint(i)), 0o644)
		}
		wd.Reset(180 * time.Second)
		t := kernel.NewSearchTape(seed, i)
		rec := execRun(p, t, seed, i, false, false)
		o := rec.Outcome
		for _, v := range rl.fresh() {
			o.Violate(prop+"/"+v.Class, v.Msg)
		}
		w.Runs++
		w.Steps += int64(rec.Steps)
		w.Choices += int64(rec.Choices)
		if o.Res != nil {
			w.Snapshots += int64(o.Res.Snapshots)
		}
		w.Policies[rec.Policy]++
		for k, v := range o.Stats {
			w.Stats[k] += v
		}
		if hashes {
			w.Hashes = append(w.Hashes, rec.TraceHash+"/"+fmt.Sprint(o.Classes()))
		}
		if o.Infra != "" {
			rec.P, rec.S = t.P, t.S
			w.Infra = append(w.Infra, rec)
			if len(w.Infra) > 3 {
				break
			}
			continue
		}
		if o.Nontrivial {
			w.Nontrivial++
			w.Pairs = append(w.Pairs, o.PlanHash+rec.SchedSig)
			w.Plans[o.PlanHash]++
		}
		if len(o.Violations) > 0 {
			rec.P, rec.S = t.P, t.S
			if len(w.Violations) < 40 {
				w.Violations = append(w.Violations, rec)
			} else {
				// keep only classes for counting
				w.Violations = append(w.Violations, &runRecord{Prop: prop, Seed: seed, Run: i, Outcome: &core.Outcome{Violations: o.Violations}})
			}
		}
		if len(w.Samples) < 2 && o.Nontrivial && (i-from)%37 == 0 {
			w.Samples = append(w.Samples, map[string]any{"run": i, "plan": o.Sample, "policy": rec.Policy, "steps": rec.Steps,
				"choice_points": rec.Choices, "schedule_signature": rec.SchedSig})
		}
	}
	wd.Stop()
	w.WallS = time.Since(start).Seconds()
	sort.Strings(w.Pairs)
	b, _ := json.Marshal(w)
	if out == "" {
		os.Stdout.Write(b)
	} else if err := os.WriteFile(out, b, 0o644); err != nil {
		fmt.Fprintln(os.Stderr, err)
		return 2
	}
	return 0
}
