package main

import (
	"bytes"
	"encoding/json"
	"fmt"
	"os"
	"os/exec"
	"path/filepath"
	"regexp"
	"runtime"
	"sort"
	"strings"
	"sync"
	"time"

	"verifsim/core"
)

func verifDir() string {
	if d := os.Getenv("VERIF_DIR"); d != "" {
		return d
	}
	return "/verif"
}

type knownFinding struct {
	Property string `json:"property"`
	Class    string `json:"class"`
	Match    string `json:"match"`
	Status   string `json:"status"`
	Commit   string `json:"commit,omitempty"`
	Text     string `json:"text"`
}

func loadKnown() []knownFinding {
	b, err := os.ReadFile(filepath.Join(verifDir(), "known_findings.json"))
	if err != nil {
		return nil
	}
	var k []knownFinding
	if err := json.Unmarshal(b, &k); err != nil {
		fmt.Fprintln(os.Stderr, "known_findings.json:", err)
		os.Exit(2)
	}
	return k
}

func matchKnown(known []knownFinding, prop string, v core.Violation, sample string) *knownFinding {
	for i := range known {
		k := &known[i]
		if k.Status != "known" || k.Property != prop || k.Class != v.Class {
			continue
		}
		if k.Match == "" {
			return k
		}
		re, err := regexp.Compile(k.Match)
		if err != nil {
			continue
		}
		if re.MatchString(v.Msg) || re.MatchString(sample) {
			return k
		}
	}
	return nil
}

func selfExe() string {
	e, err := os.Executable()
	if err != nil {
		return os.Args[0]
	}
	return e
}

type chunk struct {
	seed     int64
	from, to int
	race     bool // executed by the race-detector build (Mode B)
}

func raceBin() string { return os.Getenv("VSIM_RACE_BIN") }

// exeFor returns the binary and extra environment for a normal or a race-mode execution.
func exeFor(race bool, tmp string) (string, []string) {
	if race && raceBin() != "" {
		base := filepath.Join(tmp, "racelog")
		return raceBin(), []string{"GORACE=halt_on_error=0 log_path=" + base, "VSIM_RACELOG=" + base}
	}
	return selfExe(), nil
}

type chunkResult struct {
	c      chunk
	w      *workerOut
	crash  bool
	curRun int
	stderr string
	code   int
}

func workerCount() int {
	n := runtime.NumCPU()
	if v := os.Getenv("VERIF_WORKERS"); v != "" {
		fmt.Sscan(v, &n)
	}
	if n < 1 {
		n = 1
	}
	return n
}

func runChunks(prop string, chunks []chunk, tmp string, deadline time.Time, hashes bool, gomaxprocs int) []chunkResult {
	var mu sync.Mutex
	var results []chunkResult
	next := 0
	var wg sync.WaitGroup
	for w := 0; w < workerCount(); w++ {
		wg.Add(1)
		go func(w int) {
			defer wg.Done()
			for {
				mu.Lock()
				if next >= len(chunks) || time.Now().After(deadline) {
					mu.Unlock()
					return
				}
				c := chunks[next]
				idx := next
				next++
				mu.Unlock()
				out := filepath.Join(tmp, fmt.Sprintf("w%d.json", idx))
				args := []string{"worker", "-prop", prop, "-seed", fmt.Sprint(c.seed), "-from", fmt.Sprint(c.from), "-to", fmt.Sprint(c.to), "-out", out}
				if hashes {
					args = append(args, "-hashes")
				}
				exe, extra := exeFor(c.race, tmp)
				cmd := exec.Command(exe, args...)
				cmd.Env = append(append(os.Environ(), fmt.Sprintf("GOMAXPROCS=%d", gomaxprocs)), extra...)
				var eb bytes.Buffer
				cmd.Stderr = &eb
				err := cmd.Run()
				r := chunkResult{c: c}
				if b, rerr := os.ReadFile(out); rerr == nil {
					r.w = &workerOut{}
					if jerr := json.Unmarshal(b, r.w); jerr != nil {
						r.w = nil
					}
				}
				os.Remove(out)
				if r.w == nil {
					r.crash = true
					r.curRun = -1
					if b, e2 := os.ReadFile(out + ".cur"); e2 == nil {
						fmt.Sscan(string(b), &r.curRun)
					}
					st := eb.String()
					if len(st) > 6000 {
						st = st[:3000] + "\n...\n" + st[len(st)-3000:]
					}
					r.stderr = st
					if ee, ok := err.(*exec.ExitError); ok {
						r.code = ee.ExitCode()
					}
				}
				os.Remove(out + ".cur")
				mu.Lock()
				results = append(results, r)
				if r.crash && r.curRun >= c.from && r.curRun+1 < c.to {
					// the worker died in the middle of its range: the rest is still to be explored
					chunks = append(chunks, chunk{c.seed, r.curRun + 1, c.to, c.race})
				}
				mu.Unlock()
			}
		}(w)
	}
	wg.Wait()
	return results
}

type evalResult struct {
	rec      *runRecord
	crashed  bool
	crashSig string
	code     int
	stderr   string
}

var crashRe = regexp.MustCompile(`(?m)^(panic: .*|fatal error: .*)$`)

// evalTape runs one run in a fresh process: from a tape file when P/S given, else (seed, run).
// evalRace makes evalTape use the race-detector build (set while a race-mode violation is handled).
var evalRace bool

func evalTape(prop string, seed int64, run int, P, S []int, useTape bool, trace bool) *evalResult {
	args := []string{"run", "-prop", prop, "-seed", fmt.Sprint(seed), "-run", fmt.Sprint(run)}
	var tf string
	if useTape {
		f, err := os.CreateTemp("", "vsim-tape-*.json")
		if err != nil {
			return &evalResult{code: 2, stderr: err.Error()}
		}
		b, _ := json.Marshal(map[string]any{"P": P, "S": S})
		f.Write(b)
		f.Close()
		tf = f.Name()
		defer os.Remove(tf)
		args = append(args, "-tape", tf)
	}
	if trace {
		args = append(args, "-trace")
	}
	rtmp := ""
	exe, extra := selfExe(), []string(nil)
	if evalRace {
		rtmp, _ = os.MkdirTemp("", "vsim-race-")
		defer os.RemoveAll(rtmp)
		exe, extra = exeFor(true, rtmp)
	}
	cmd := exec.Command(exe, args...)
	cmd.Env = append(append(os.Environ(), "GOMAXPROCS=2"), extra...)
	var ob, eb bytes.Buffer
	cmd.Stdout, cmd.Stderr = &ob, &eb
	// a candidate that does not finish within 90 s counts as "does not reproduce"
	tm := time.AfterFunc(90*time.Second, func() {
		if cmd.Process != nil {
			cmd.Process.Kill()
		}
	})
	err := cmd.Run()
	tm.Stop()
	r := &evalResult{}
	if ee, ok := err.(*exec.ExitError); ok {
		r.code = ee.ExitCode()
	} else if err != nil {
		r.code = 2
	}
	r.stderr = eb.String()
	rec := &runRecord{}
	if json.Unmarshal(ob.Bytes(), rec) == nil && rec.Outcome != nil {
		r.rec = rec
		return r
	}
	if m := crashRe.FindString(r.stderr); m != "" && r.code != 3 {
		r.crashed = true
		r.crashSig = normCrash(m)
	}
	return r
}

var hexRe = regexp.MustCompile(`0x[0-9a-f]+|\[recovered\]`)

func normCrash(line string) string {
	line = hexRe.ReplaceAllString(line, "")
	if len(line) > 120 {
		line = line[:120]
	}
	return strings.TrimSpace(line)
}

func hasClass(r *evalResult, class string) bool {
	if strings.HasPrefix(class, "crash:") {
		return r.crashed && "crash:"+r.crashSig == class
	}
	if r.rec == nil || r.rec.Outcome == nil || r.rec.Outcome.Infra != "" {
		return false
	}
	for _, v := range r.rec.Outcome.Violations {
		if v.Class == class {
			return true
		}
	}
	return false
}

// shrink minimises (P,S) while the violation class persists. Every candidate is executed
// in a fresh process, so crashes and hangs of the system under test cannot harm it.
func shrink(prop string, class string, P, S []int, budget time.Duration) ([]int, []int, int) {
	deadline := time.Now().Add(budget)
	evals := 0
	try := func(p, s []int) (bool, *evalResult) {
		if time.Now().After(deadline) {
			return false, nil
		}
		evals++
		r := evalTape(prop, 0, 0, p, s, true, false)
		return hasClass(r, class), r
	}
	trim := func(r *evalResult, p, s []int) ([]int, []int) {
		if r != nil && r.rec != nil {
			if r.rec.UsedP < len(p) {
				p = p[:r.rec.UsedP]
			}
			if r.rec.UsedS < len(s) {
				s = s[:r.rec.UsedS]
			}
		}
		for len(s) > 0 && s[len(s)-1] == 0 {
			s = s[:len(s)-1]
		}
		for len(p) > 0 && p[len(p)-1] == 0 {
			p = p[:len(p)-1]
		}
		return p, s
	}
	cp := func(x []int) []int { return append([]int(nil), x...) }
	// schedule first: the all-zero schedule is the canonical "run each task as long as possible"
	if ok, r := try(P, nil); ok {
		P, S = trim(r, P, nil)
	}
	pass := func(which int) bool {
		improved := false
		get := func() []int {
			if which == 0 {
				return S
			}
			return P
		}
		set := func(x []int, r *evalResult) {
			if which == 0 {
				P, S = trim(r, P, x)
			} else {
				P, S = trim(r, x, S)
			}
		}
		attempt := func(x []int) bool {
			var ok bool
			var r *evalResult
			if which == 0 {
				ok, r = try(P, x)
			} else {
				ok, r = try(x, S)
			}
			if ok {
				set(x, r)
				improved = true
			}
			return ok
		}
		// delete blocks, then zero blocks
		for b := len(get()) / 2; b >= 1; b /= 2 {
			for i := 0; i+b <= len(get()); {
				cur := get()
				x := append(cp(cur[:i]), cur[i+b:]...)
				if attempt(x) {
					continue
				}
				allZero := true
				for _, v := range cur[i : i+b] {
					if v != 0 {
						allZero = false
					}
				}
				if !allZero {
					z := cp(cur)
					for k := i; k < i+b; k++ {
						z[k] = 0
					}
					if attempt(z) {
						i += b
						continue
					}
				}
				i += b
				if time.Now().After(deadline) {
					return improved
				}
			}
		}
		// lower single values
		for i := 0; i < len(get()); i++ {
			cur := get()
			if i >= len(cur) || cur[i] == 0 {
				continue
			}
			for _, nv := range []int{cur[i] / 2, cur[i] - 1} {
				if nv == cur[i] || nv < 0 {
					continue
				}
				z := cp(get())
				if i >= len(z) {
					break
				}
				z[i] = nv
				if attempt(z) {
					break
				}
			}
			if time.Now().After(deadline) {
				return improved
			}
		}
		return improved
	}
	for round := 0; round < 4; round++ {
		a := pass(0)
		b := pass(1)
		if !a && !b {
			break
		}
		if time.Now().After(deadline) {
			break
		}
	}
	return P, S, evals
}

type replayFile struct {
	Property  string         `json:"property"`
	Engine    string         `json:"engine"`
	Seed      int64          `json:"seed"`
	Run       int            `json:"run"`
	Class     string         `json:"class"`
	Message   string         `json:"message"`
	P         []int          `json:"P"`
	S         []int          `json:"S"`
	TraceHash string         `json:"trace_hash"`
	Plan      string         `json:"plan"`
	Schedule  []string       `json:"schedule"`
	Log       []string       `json:"log,omitempty"`
	Stats     map[string]int `json:"stats,omitempty"`
	Shrink    map[string]int `json:"shrink"`
	Note      string         `json:"note"`
	Race      bool           `json:"race_mode,omitempty"` // found and replayed by the race-detector build
}

// replayMain re-executes a replay file in a fresh process and checks that class and trace
// hash are reproduced exactly.
func replayMain(file string) int {
	b, err := os.ReadFile(file)
	if err != nil {
		fmt.Fprintln(os.Stderr, err)
		return 2
	}
	var rf replayFile
	if err := json.Unmarshal(b, &rf); err != nil {
		fmt.Fprintln(os.Stderr, err)
		return 2
	}
	evalRace = rf.Race
	if rf.Race && raceBin() == "" {
		fmt.Println("this replay needs the race-detector build: run it through /verif/run.sh replay <file>")
		return 2
	}
	var r *evalResult
	for i := 0; i < confirmTries; i++ {
		r = evalTape(rf.Property, rf.Seed, rf.Run, rf.P, rf.S, len(rf.P)+len(rf.S) > 0, true)
		if hasClass(r, rf.Class) || !strings.HasPrefix(rf.Note, "REPLAY NOT EXACT") {
			break
		}
	}
	if !hasClass(r, rf.Class) {
		fmt.Printf("replay did NOT reproduce %s (exit code %d)\n", rf.Class, r.code)
		if r.rec != nil {
			fmt.Printf("classes now: %v infra=%q\n", r.rec.Outcome.Classes(), r.rec.Outcome.Infra)
		}
		return 0
	}
	if r.rec != nil {
		if rf.TraceHash != "" && r.rec.TraceHash != rf.TraceHash && !strings.HasPrefix(rf.Note, "REPLAY NOT EXACT") {
			fmt.Printf("replay reproduced %s but with a different trace (%s vs %s)\n", rf.Class, r.rec.TraceHash, rf.TraceHash)
			return 2
		}
		for _, v := range r.rec.Outcome.Violations {
			if v.Class == rf.Class {
				fmt.Println(v.Msg)
			}
		}
		fmt.Println("plan:", r.rec.Outcome.Sample)
		for i, l := range r.rec.Outcome.Trace {
			fmt.Printf("  %3d %s\n", i, l)
		}
	} else {
		fmt.Println(r.stderr)
	}
	fmt.Printf("VIOLATION property=%s replay=%s\n", rf.Property, file)
	return 1
}

func checkMain(prop, tier string, seed int64, runsOverride int) int {
	p := profile(prop)
	start := time.Now()
	known := loadKnown()
	nRuns, seeds := p.Quick, []int64{seed}
	cap := 4 * time.Minute
	shrinkBudget := 30 * time.Second
	if tier == "thorough" {
		nRuns = p.Thorough
		cap = 40 * time.Minute
		shrinkBudget = 150 * time.Second
		for i := 1; i < p.ThoroughSeeds; i++ {
			seeds = append(seeds, seed+int64(i)*1000003)
		}
	}
	if runsOverride > 0 {
		nRuns = runsOverride
	}
	if v := os.Getenv("VERIF_RUNS"); v != "" {
		fmt.Sscan(v, &nRuns)
	}
	tmp, err := os.MkdirTemp("", "vsim-check-")
	if err != nil {
		fmt.Fprintln(os.Stderr, err)
		return 2
	}
	defer os.RemoveAll(tmp)
	var chunks []chunk
	csize := nRuns / (workerCount() * 3)
	if csize < 20 {
		csize = 20
	}
	if csize > 400 {
		csize = 400
	}
	for _, sd := range seeds {
		for a := 0; a < nRuns; a += csize {
			b := a + csize
			if b > nRuns {
				b = nRuns
			}
			chunks = append(chunks, chunk{seed: sd, from: a, to: b})
		}
	}
	// Mode B: additional runs by the race-detector build (their own run indices, far away
	// from the ordinary ones, so that a replay knows which build it needs)
	raceRuns := p.RaceQuick
	if tier == "thorough" {
		raceRuns = p.RaceThorough
	}
	if v := os.Getenv("VERIF_RACE_RUNS"); v != "" {
		fmt.Sscan(v, &raceRuns)
	}
	if raceRuns > 0 && raceBin() == "" {
		fmt.Println("INFRA: this check needs the race-detector build (VSIM_RACE_BIN); run it through /verif/run.sh")
		return 2
	}
	const raceBase = 10000000
	for _, sd := range seeds {
		rs := raceRuns / 24
		if rs < 10 {
			rs = 10
		}
		for a := 0; a < raceRuns; a += rs {
			b := a + rs
			if b > raceRuns {
				b = raceRuns
			}
			chunks = append(chunks, chunk{seed: sd, from: raceBase + a, to: raceBase + b, race: true})
		}
	}
	results := runChunks(prop, chunks, tmp, start.Add(cap), false, 2)

	agg := &workerOut{Stats: map[string]int{}, Policies: map[string]int{}, Plans: map[string]int{}}
	raceDone := 0
	pairs := map[string]bool{}
	var viols []*runRecord
	var infra []string
	var crashes []chunkResult
	for _, r := range results {
		if r.w == nil {
			crashes = append(crashes, r)
			continue
		}
		w := r.w
		agg.Runs += w.Runs
		if r.c.race {
			raceDone += w.Runs
		}
		agg.Nontrivial += w.Nontrivial
		agg.Steps += w.Steps
		agg.Choices += w.Choices
		agg.Snapshots += w.Snapshots
		agg.WallS += w.WallS
		for k, v := range w.Stats {
			agg.Stats[k] += v
		}
		for k, v := range w.Policies {
			agg.Policies[k] += v
		}
		for k, v := range w.Plans {
			agg.Plans[k] += v
		}
		for _, pr := range w.Pairs {
			pairs[pr] = true
		}
		if len(agg.Samples) < 4 {
			agg.Samples = append(agg.Samples, w.Samples...)
		}
		viols = append(viols, w.Violations...)
		for _, i := range w.Infra {
			infra = append(infra, fmt.Sprintf("seed=%d run=%d: %s", i.Seed, i.Run, i.Outcome.Infra))
		}
	}
	exit := 0
	report := func(f string, a ...any) { fmt.Printf(f+"\n", a...) }

	// worker crashes: confirm by re-running the run the worker was executing
	type vcase struct {
		class  string
		rec    *runRecord
		count  int
		known  *knownFinding
		byTape bool
		race   bool
	}
	cases := map[string]*vcase{}
	for _, c := range crashes {
		if c.code == 3 || c.curRun < 0 {
			infra = append(infra, fmt.Sprintf("worker for seed=%d runs [%d,%d) died (exit %d) at run %d: %s", c.c.seed, c.c.from, c.c.to, c.code, c.curRun, tail(c.stderr, 800)))
			continue
		}
		evalRace = c.c.race
		r := evalTape(prop, c.c.seed, c.curRun, nil, nil, false, false)
		if r.crashed {
			cl := "crash:" + r.crashSig
			if cases[cl] == nil {
				cases[cl] = &vcase{class: cl, rec: &runRecord{Prop: prop, Seed: c.c.seed, Run: c.curRun,
					Outcome: &core.Outcome{Violations: []core.Violation{{Class: cl, Msg: tail(r.stderr, 3000)}}}}}
			}
			cases[cl].count++
		} else {
			infra = append(infra, fmt.Sprintf("worker for seed=%d died at run %d (exit %d) but the run alone does not crash: %s", c.c.seed, c.curRun, c.code, tail(c.stderr, 800)))
		}
	}
	sort.Slice(viols, func(i, j int) bool {
		if viols[i].Seed != viols[j].Seed {
			return viols[i].Seed < viols[j].Seed
		}
		return viols[i].Run < viols[j].Run
	})
	knownSeen := map[*knownFinding]int{}
	for _, rec := range viols {
		for _, v := range rec.Outcome.Violations {
			if k := matchKnown(known, prop, v, rec.Outcome.Sample); k != nil {
				knownSeen[k]++
				continue
			}
			c := cases[v.Class]
			if c == nil {
				c = &vcase{class: v.Class}
				cases[v.Class] = c
			}
			c.count++
			if rec.P != nil && (c.rec == nil || len(rec.P)+len(rec.S) < len(c.rec.P)+len(c.rec.S)) {
				c.rec = rec
				c.byTape = true
				c.race = rec.Run >= raceBase
			}
		}
	}
	for k, n := range knownSeen {
		report("KNOWN-FINDING: property=%s %s (class %s, %d runs)", prop, k.Text, k.Class, n)
	}
	if len(infra) > 0 {
		for i, m := range infra {
			if i < 5 {
				report("INFRA: %s", m)
			}
		}
		if exit == 0 {
			exit = 2
		}
	}
	var classes []string
	for c := range cases {
		classes = append(classes, c)
	}
	sort.Strings(classes)
	nViol := 0
	os.MkdirAll(filepath.Join(verifDir(), "replays"), 0o755)
	for i, cl := range classes {
		c := cases[cl]
		nViol += c.count
		if c.rec == nil {
			continue
		}
		if i >= 3 {
			report("VIOLATION-CLASS (not minimised, see the ones above): %s in %d runs, e.g. seed=%d run=%d", cl, c.count, c.rec.Seed, c.rec.Run)
			continue
		}
		P, S := c.rec.P, c.rec.S
		if !c.byTape {
			// crash: obtain the tape by replaying (seed, run) in search mode is not possible after a crash,
			// so the replay file refers to (seed, run); the tape generator is deterministic.
			rf := &replayFile{Property: prop, Engine: p.Engine, Seed: c.rec.Seed, Run: c.rec.Run, Class: cl,
				Message: c.rec.Outcome.Violations[0].Msg, Note: "process crash; replay by (seed, run): vsim run -prop " + prop + fmt.Sprintf(" -seed %d -run %d", c.rec.Seed, c.rec.Run)}
			path := filepath.Join(verifDir(), "replays", fmt.Sprintf("%s-%d-%d-crash.json", prop, c.rec.Seed, c.rec.Run))
			b, _ := json.MarshalIndent(rf, "", " ")
			os.WriteFile(path, b, 0o644)
			report("violation class %s (%d runs): %s", cl, c.count, firstLine(rf.Message))
			report("VIOLATION property=%s replay=%s", prop, path)
			exit1(&exit)
			continue
		}
		origP, origS := len(P), len(S)
		evalRace = c.race
		mp, ms, evals := shrink(prop, cl, P, S, shrinkBudget)
		// replay in fresh processes: must reproduce class and trace hash exactly
		r1, exact, hits := confirm(prop, c.rec, cl, mp, ms)
		if hits == 0 {
			mp, ms = P, S
			r1, exact, hits = confirm(prop, c.rec, cl, mp, ms)
		}
		wall := false
		for _, v := range c.rec.Outcome.Violations {
			if v.Class == cl && strings.Contains(v.Msg, "wall-clock budget of one run exceeded") {
				wall = true
			}
		}
		if hits == 0 && wall {
			// the wall-clock part of the run budget depends on the load of the machine; a run that
			// completes within its step budget when replayed was merely slow
			report("NOTE: seed=%d run=%d exceeded the wall-clock budget of a run during the search but completes when replayed (machine load); not counted", c.rec.Seed, c.rec.Run)
			continue
		}
		if hits == 0 {
			report("INFRA: violation %s of seed=%d run=%d was seen by the search but never reproduces from its tape; withheld", cl, c.rec.Seed, c.rec.Run)
			if exit == 0 {
				exit = 2
			}
			continue
		}
		flaky := ""
		if !exact {
			flaky = fmt.Sprintf("REPLAY NOT EXACT: reproduced in %d of %d fresh-process replays; the code under test makes a choice the simulator does not control (e.g. a select with several ready cases). ", hits, confirmTries)
		}
		rf := &replayFile{Property: prop, Engine: p.Engine, Seed: c.rec.Seed, Run: c.rec.Run, Class: cl, P: mp, S: ms, Race: c.race,
			Shrink: map[string]int{"orig_plan_draws": origP, "orig_sched_draws": origS, "plan_draws": len(mp), "sched_draws": len(ms), "evaluations": evals},
			Note:   flaky + "replay: /verif/run.sh replay <this file>"}
		if r1.rec != nil {
			rf.TraceHash = r1.rec.TraceHash
			rf.Plan = r1.rec.Outcome.Sample
			rf.Schedule = r1.rec.Outcome.Trace
			rf.Log = r1.rec.Outcome.Log
			rf.Stats = r1.rec.Outcome.Stats
			for _, v := range r1.rec.Outcome.Violations {
				if v.Class == cl {
					rf.Message = v.Msg
				}
			}
		} else {
			rf.Message = tail(r1.stderr, 3000)
		}
		path := filepath.Join(verifDir(), "replays", fmt.Sprintf("%s-%d-%d-%s.json", prop, c.rec.Seed, c.rec.Run, safeName(cl)))
		b, _ := json.MarshalIndent(rf, "", " ")
		os.WriteFile(path, b, 0o644)
		report("violation class %s (%d runs); minimised %d+%d -> %d+%d draws, %d schedule steps: %s", cl, c.count, origP, origS, len(mp), len(ms), len(rf.Schedule), firstLine(rf.Message))
		report("VIOLATION property=%s replay=%s", prop, path)
		exit1(&exit)
	}

	wall := time.Since(start).Seconds()
	ev := map[string]any{
		"property_id": prop, "tier": tier, "seed": seed, "level": "exploration", "wall_s": wall, "violations": nViol,
		"coverage": map[string]any{
			"evaluations":                agg.Runs,
			"distinct_nontrivial":        len(pairs),
			"rule":                       p.Rule,
			"samples":                    agg.Samples,
			"seeds":                      seeds,
			"nontrivial_runs":            agg.Nontrivial,
			"distinct_plans":             len(agg.Plans),
			"distinct_schedules_measure": "distinct (plan hash, sequence of (picked index/number of candidates) at every step with >=2 candidates)",
			"scheduler_steps":            agg.Steps,
			"choice_points":              agg.Choices,
			"simulated_time":             "eino has no clock in the code these properties anchor; simulated time = scheduler steps",
			"runs_per_hour":              int(float64(agg.Runs) / wall * 3600),
			"seeds_per_hour":             float64(len(seeds)) / wall * 3600,
			"quiescence_snapshots":       agg.Snapshots,
			"policies":                   agg.Policies,
			"faults_and_probes":          agg.Stats,
			"fault_kinds":                p.Faults,
			"real_components":            p.Real,
			"stub_components":            p.Stub,
			"engine":                     p.Engine,
			"mode":                       modeText(raceDone),
			"race_detector_runs":         raceDone,
			"known_findings_seen":        len(knownSeen),
			"infra_problems":             len(infra),
			"workers":                    workerCount(),
		},
		"assumptions": []string{
			"sampling, not enumeration: a clean batch is evidence, not proof",
			"interleavings are explored at hook-point granularity",
			"Go runtime goroutine snapshot (runtime.Stack) is a consistent cut; header format of go1.23",
			"reference models and monitors encode my reading of the property statement (DESIGN.md section 6)",
		},
	}
	if agg.Runs > 0 {
		b, _ := json.MarshalIndent(ev, "", " ")
		os.MkdirAll(filepath.Join(verifDir(), "evidence"), 0o755)
		if err := os.WriteFile(filepath.Join(verifDir(), "evidence", prop+".json"), b, 0o644); err != nil {
			fmt.Fprintln(os.Stderr, err)
			return 2
		}
	} else if exit == 0 {
		report("INFRA: no run completed")
		exit = 2
	}
	report("%s %s: %d runs (%d non-trivial, %d distinct plan x schedule), %d steps, %.1fs, violations=%d, exit=%d", prop, tier, agg.Runs, agg.Nontrivial, len(pairs), agg.Steps, wall, nViol, exit)
	return exit
}

func exit1(e *int) { *e = 1 }

const confirmTries = 4

// confirm replays a tape in fresh processes. exact: every replay reproduced the class with
// one and the same trace hash. hits: number of replays that reproduced the class.
func confirm(prop string, rec *runRecord, class string, P, S []int) (first *evalResult, exact bool, hits int) {
	hashes := map[string]bool{}
	for i := 0; i < confirmTries; i++ {
		r := evalTape(prop, rec.Seed, rec.Run, P, S, true, first == nil)
		if hasClass(r, class) {
			hits++
			if first == nil {
				first = r
			}
			if r.rec != nil {
				hashes[r.rec.TraceHash] = true
			}
		}
		if i == 1 && hits == 2 && len(hashes) <= 1 {
			return first, true, hits
		}
	}
	return first, hits == confirmTries && len(hashes) <= 1, hits
}

func tail(s string, n int) string {
	if len(s) > n {
		return "…" + s[len(s)-n:]
	}
	return s
}

func firstLine(s string) string {
	if i := strings.IndexByte(s, '\n'); i >= 0 {
		s = s[:i]
	}
	if len(s) > 300 {
		s = s[:300] + "…"
	}
	return s
}

func safeName(s string) string {
	var sb strings.Builder
	for _, c := range s {
		switch {
		case c >= 'a' && c <= 'z', c >= 'A' && c <= 'Z', c >= '0' && c <= '9', c == '-', c == '_':
			sb.WriteRune(c)
		default:
			sb.WriteByte('_')
		}
	}
	x := sb.String()
	if len(x) > 60 {
		x = x[:60]
	}
	return x
}

// dettestMain: the same runs executed by many processes at GOMAXPROCS 1/4/16 must give
// identical per-run trace hashes and violation classes.
func dettestMain(prop string, seed int64, n, procs int) int {
	tmp, err := os.MkdirTemp("", "vsim-det-")
	if err != nil {
		return 2
	}
	defer os.RemoveAll(tmp)
	gmp := []int{1, 4, 16}
	var ref []string
	bad := 0
	total := 0
	for gi, g := range gmp {
		var chunks []chunk
		per := procs / len(gmp)
		if per < 1 {
			per = 1
		}
		for i := 0; i < per; i++ {
			chunks = append(chunks, chunk{seed: seed, from: 0, to: n})
		}
		res := runChunks(prop, chunks, filepath.Join(tmp), time.Now().Add(time.Hour), true, g)
		for _, r := range res {
			if r.w == nil {
				fmt.Printf("dettest: worker died at GOMAXPROCS=%d: %s\n", g, tail(r.stderr, 500))
				return 2
			}
			if len(r.w.Infra) > 0 {
				fmt.Printf("dettest: infra problem at GOMAXPROCS=%d: %s\n", g, r.w.Infra[0].Outcome.Infra)
				return 2
			}
			total++
			if ref == nil {
				ref = r.w.Hashes
				continue
			}
			for i := range ref {
				if i >= len(r.w.Hashes) || ref[i] != r.w.Hashes[i] {
					bad++
					fmt.Printf("dettest: divergence at run %d (GOMAXPROCS=%d, group %d): %s vs %s\n", i, g, gi, ref[i], r.w.Hashes[i])
					break
				}
			}
		}
	}
	fmt.Printf("dettest %s: %d processes x %d runs, divergent processes: %d\n", prop, total, n, bad)
	if bad > 0 {
		return 2
	}
	return 0
}

func modeText(raceRuns int) string {
	if raceRuns > 0 {
		return fmt.Sprintf("A (channel parking) for the ordinary runs; B for %d runs: race-detector build in which the kernel's own synchronisation is hidden from the detector (runtime.RaceDisable), so that two accesses the program itself does not order are reported although the simulator executed them one after the other; only reports whose two accesses are both in eino code count", raceRuns)
	}
	return "A (channel parking; the race detector would see every access ordered by the kernel)"
}
