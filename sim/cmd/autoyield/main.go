// Command autoyield rewrites a scratch copy of the library before a check builds it: it
// inserts a simulator yield point (verifhook.Y) after every statement that can wake or
// release another goroutine - WaitGroup.Done, Unlock, close(ch), channel sends, calls into
// sync/atomic - including their deferred forms. The hand-placed hooks in /repo stay as they
// are (they carry the named sites and the seams); the automatic ones make the granularity
// of the simulation independent of where a change moves code to.
//
//	autoyield <dir>     rewrites the non-test .go files of the selected packages in place
package main

import (
	"bytes"
	"fmt"
	"go/ast"
	"go/format"
	"go/parser"
	"go/token"
	"os"
	"path/filepath"
	"strconv"
	"strings"
)

var pkgs = []string{"schema", "compose", "internal/callbacks", "callbacks", "flow/agent", "flow/agent/react", "flow/agent/multiagent/host"}

const hookPath = "github.com/cloudwego/eino/internal/verifhook"

func main() {
	if len(os.Args) != 2 {
		fmt.Fprintln(os.Stderr, "usage: autoyield <dir>")
		os.Exit(2)
	}
	root := os.Args[1]
	total := 0
	for _, p := range pkgs {
		files, _ := filepath.Glob(filepath.Join(root, p, "*.go"))
		for _, f := range files {
			if strings.HasSuffix(f, "_test.go") || strings.Contains(f, "verif_export") {
				continue
			}
			n, err := rewrite(f, strings.TrimPrefix(f, root+"/"))
			if err != nil {
				fmt.Fprintln(os.Stderr, "autoyield:", f, err)
				os.Exit(2)
			}
			total += n
		}
	}
	fmt.Printf("autoyield: %d yield points inserted\n", total)
}

// wakes reports whether executing the expression can wake or release another goroutine.
func wakes(e ast.Expr) bool {
	call, ok := e.(*ast.CallExpr)
	if !ok {
		return false
	}
	switch fn := call.Fun.(type) {
	case *ast.Ident:
		return fn.Name == "close" && len(call.Args) == 1
	case *ast.SelectorExpr:
		if x, ok := fn.X.(*ast.Ident); ok && x.Name == "atomic" {
			return true
		}
		if x, ok := fn.X.(*ast.Ident); ok && x.Name == "verifhook" {
			return false
		}
		switch fn.Sel.Name {
		case "Done":
			return len(call.Args) == 0 // WaitGroup.Done (ctx.Done() never stands alone as a statement)
		case "Unlock", "RUnlock", "Broadcast", "Signal":
			return len(call.Args) == 0
		}
	}
	return false
}

func containsAtomic(n ast.Node) bool {
	found := false
	ast.Inspect(n, func(x ast.Node) bool {
		if _, isFn := x.(*ast.FuncLit); isFn {
			return false
		}
		if c, ok := x.(*ast.CallExpr); ok {
			if s, ok := c.Fun.(*ast.SelectorExpr); ok {
				if id, ok := s.X.(*ast.Ident); ok && id.Name == "atomic" {
					found = true
				}
			}
		}
		return !found
	})
	return found
}

func yieldStmt(site string) ast.Stmt {
	return &ast.ExprStmt{X: &ast.CallExpr{
		Fun:  &ast.SelectorExpr{X: ast.NewIdent("verifhook"), Sel: ast.NewIdent("Y")},
		Args: []ast.Expr{&ast.BasicLit{Kind: token.STRING, Value: strconv.Quote(site)}},
	}}
}

func rewrite(path, rel string) (int, error) {
	fset := token.NewFileSet()
	f, err := parser.ParseFile(fset, path, nil, parser.ParseComments)
	if err != nil {
		return 0, err
	}
	count := 0
	site := func(pos token.Pos, what string) string {
		return fmt.Sprintf("auto:%s:%d:%s", rel, fset.Position(pos).Line, what)
	}
	var fix func(list []ast.Stmt) []ast.Stmt
	fix = func(list []ast.Stmt) []ast.Stmt {
		var out []ast.Stmt
		for _, st := range list {
			out = append(out, st)
			switch s := st.(type) {
			case *ast.ExprStmt:
				if wakes(s.X) {
					out = append(out, yieldStmt(site(s.Pos(), "after")))
					count++
				}
			case *ast.SendStmt:
				out = append(out, yieldStmt(site(s.Pos(), "sent")))
				count++
			case *ast.AssignStmt:
				if containsAtomic(s) {
					out = append(out, yieldStmt(site(s.Pos(), "atomic")))
					count++
				}
			case *ast.DeferStmt:
				if wakes(s.Call) {
					// defer x.Unlock()  =>  defer func() { x.Unlock(); verifhook.Y(..) }()
					body := &ast.BlockStmt{List: []ast.Stmt{&ast.ExprStmt{X: s.Call}, yieldStmt(site(s.Pos(), "deferred"))}}
					s.Call = &ast.CallExpr{Fun: &ast.FuncLit{Type: &ast.FuncType{Params: &ast.FieldList{}}, Body: body}}
					count++
				}
			}
		}
		return out
	}
	ast.Inspect(f, func(n ast.Node) bool {
		switch b := n.(type) {
		case *ast.BlockStmt:
			b.List = fix(b.List)
		case *ast.CaseClause:
			b.Body = fix(b.Body)
		case *ast.CommClause:
			b.Body = fix(b.Body)
		}
		return true
	})
	if count == 0 {
		return 0, nil
	}
	// import verifhook if the file does not yet
	has := false
	for _, im := range f.Imports {
		if im.Path.Value == strconv.Quote(hookPath) {
			has = true
		}
	}
	if !has {
		spec := &ast.ImportSpec{Path: &ast.BasicLit{Kind: token.STRING, Value: strconv.Quote(hookPath)}}
		added := false
		for _, d := range f.Decls {
			if g, ok := d.(*ast.GenDecl); ok && g.Tok == token.IMPORT {
				g.Specs = append(g.Specs, spec)
				if !g.Lparen.IsValid() {
					g.Lparen = g.Pos()
				}
				added = true
				break
			}
		}
		if !added {
			f.Decls = append([]ast.Decl{&ast.GenDecl{Tok: token.IMPORT, Specs: []ast.Spec{spec}}}, f.Decls...)
		}
	}
	var buf bytes.Buffer
	if err := format.Node(&buf, fset, f); err != nil {
		return 0, err
	}
	return count, os.WriteFile(path, buf.Bytes(), 0o644)
}
