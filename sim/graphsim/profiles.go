package graphsim

import (
	"context"
	"fmt"
	"github.com/cloudwego/eino/compose"
	"strings"

	"verifsim/core"
	"verifsim/kernel"
)

type basicCfg struct {
	prefix     string
	gen        GenOpts
	paradigms  []int
	alone      bool // also run a nested plan compiled alone
	leakIsViol bool
}

func hasWorkflow(p *Plan) bool {
	if p.Mode == ModeWorkflow {
		return true
	}
	for _, n := range p.Nodes {
		if n.Kind == KSub && hasWorkflow(n.Sub) {
			return true
		}
	}
	return false
}

func countNodes(p *Plan) int {
	c := len(p.Nodes)
	for _, n := range p.Nodes {
		if n.Kind == KSub {
			c += countNodes(n.Sub)
		}
	}
	return c
}

func stacksOf(gs []kernel.GInfo) string {
	var sb strings.Builder
	for i, g := range gs {
		if i >= 5 {
			fmt.Fprintf(&sb, "... and %d more\n", len(gs)-i)
			break
		}
		st := g.Stack
		if len(st) > 1800 {
			st = st[:1800] + "…"
		}
		sb.WriteString(st + "\n\n")
	}
	return sb.String()
}

func topFrame(g kernel.GInfo) string {
	lines := strings.Split(g.Stack, "\n")
	for i := 1; i < len(lines); i += 2 {
		f := lines[i]
		if strings.HasPrefix(f, "verifsim/kernel.") || strings.HasPrefix(f, "runtime.") || strings.HasPrefix(f, "sync.") ||
			strings.HasPrefix(f, "github.com/cloudwego/eino/internal/verifhook") {
			continue
		}
		if k := strings.LastIndexByte(f, '('); k > 0 {
			f = f[:k]
		}
		return strings.TrimPrefix(f, "github.com/cloudwego/eino/")
	}
	return g.State
}

// runBasic: one plan, one caller, one call (plus optionally a nested plan run alone),
// compared with the reference model.
func runBasic(t *kernel.Tape, opt core.Opts, cfg basicCfg) *core.Outcome {
	o := &core.Outcome{}
	p := Generate(t, cfg.gen)
	maybeInputKeys(t, p)
	if t.PlanBool(15) {
		decorateTwins(t, p) // two nodes built from one Lambda value
	}
	in := M{"in": fmt.Sprintf("x%d", t.Plan(3))}
	call := &Call{Tag: "r0", Paradigm: cfg.paradigms[t.Plan(len(cfg.paradigms))], In: in, InCut: t.Plan(3), InPipe: t.PlanBool(50), StopAfter: -1}
	withOpt := t.PlanBool(30) // an undesignated lambda option: it reaches every lambda node, at any depth
	if withOpt {
		call.Opts = append(call.Opts, compose.WithLambdaOption(lopt{Tag: "r0"}))
	}
	if p.Mode == ModePregel && t.PlanBool(20) {
		// a step limit given with the call (lower or higher than the compiled one)
		p.RuntimeMax = 1 + t.Plan(2*(len(p.Nodes)+10))
		call.Opts = append(call.Opts, compose.WithRuntimeMaxSteps(p.RuntimeMax))
	}
	o.Sample = p.Render() + " call=" + paradigmNames[call.Paradigm] + fmt.Sprintf(" runtimeMax=%d", p.RuntimeMax)
	o.PlanHash = planHash(o.Sample)
	mr := RunModel(p, in)

	s := kernel.New(t, 40*countNodes(p))
	defer s.Close()
	s.KeepTrace = opt.KeepTrace
	env := NewEnv(s)
	env.OptWanted["r0"] = withOpt
	env.Prefix = cfg.prefix
	b := &builder{env: env, top: p}
	r, err := b.Compile(context.Background(), p)
	if err != nil {
		o.Infra = "generated plan does not compile: " + err.Error() + " :: " + o.Sample
		return o
	}
	var res *CallResult
	var aloneRes *CallResult
	var aloneModel *ModelResult
	var aloneCall *Call
	var alonePlan *Plan
	if cfg.alone {
		for _, n := range p.Nodes {
			if n.Kind == KSub && len(mr.SubInputs[n.Key]) > 0 {
				alonePlan = n.Sub
				aloneCall = &Call{Tag: "alone", Paradigm: call.Paradigm, In: mr.SubInputs[n.Key][0], StopAfter: -1}
				break
			}
		}
	}
	s.Go("caller0", func() {
		res = doCall(env, r, call)
		if alonePlan != nil {
			// the nested plan compiled alone: its nodes keep their names, the path is empty
			ra, err := (&builder{env: env, top: alonePlan}).Compile(context.Background(), alonePlan)
			if err != nil {
				env.problem(cfg.prefix+"/nested-plan-does-not-compile-alone", err.Error())
				return
			}
			aloneRes = doCall(env, ra, aloneCall)
		}
	})
	kr := s.Run(40000)
	core.FinishKernel(o, s, kr, cfg.prefix)
	if o.Infra != "" || kr.Budget {
		return o
	}
	if kr.Deadlock && (res == nil || !res.Done) {
		o.Violate(cfg.prefix+"/hang", "the call never returned; unfinished tasks: "+strings.Join(kr.Unfinished, ",")+"\n"+stacksOf(kr.Blocked))
		return o
	}
	if len(kr.Blocked) > 0 {
		o.Stat("probe.goroutines_left_behind", len(kr.Blocked))
		if cfg.leakIsViol {
			o.Violate(cfg.prefix+"/goroutine-left-behind:"+topFrame(kr.Blocked[0]), stacksOf(kr.Blocked))
		}
	}
	checkAgainstModel(o, cfg.prefix, p, env, call, res, mr, execsComparable(p, mr))
	if aloneRes != nil {
		aloneModel = RunModel(alonePlan, aloneCall.In)
		// executions of the alone run are recorded under the tag "alone" with paths relative to the nested plan
		checkAgainstModel(o, cfg.prefix+"/alone", alonePlan, env, aloneCall, aloneRes, aloneModel, execsComparable(alonePlan, aloneModel))
		o.Stat("probe.nested_run_alone", 1)
	}
	// supersteps never exceed the limit: no node runs more often than the limit allows
	if p.Mode == ModePregel {
		max := p.MaxSteps
		if max == 0 {
			max = len(p.Nodes) + 10
		}
		if p.RuntimeMax > 0 {
			max = p.RuntimeMax // the limit configured for this call
		}
		cnt := map[string]int{}
		shared := map[string]int{} // twin name -> number of nodes recorded under it
		for _, n := range p.Nodes {
			if n.Twin != "" {
				shared[n.Twin]++
			}
		}
		for _, e := range env.execsOf("r0", true) {
			if !strings.Contains(e.Path, "/") {
				cnt[e.Path]++
				lim := max
				if k := shared[e.Path]; k > 1 {
					lim = max * k
				}
				if cnt[e.Path] > lim {
					o.Violate(cfg.prefix+"/step-limit-exceeded", fmt.Sprintf("%s executed %d times with a step limit of %d", e.Path, cnt[e.Path], max))
				}
			}
		}
	}
	// no early return: with Invoke every node execution that feeds END is finished when the
	// call returns. Batch modes finish every started node; in a workflow (eager) this is
	// demanded of the top-level nodes that have a control path to END.
	if call.Paradigm == PInvoke && res != nil && res.Err == nil {
		must := func(path string) bool { return true }
		if hasWorkflow(p) {
			reach := controlReachesEnd(p)
			must = func(path string) bool { return p.Mode == ModeWorkflow && reach[path] }
		}
		for _, e := range env.Execs {
			if e.Tag == "r0" && must(e.Path) && (e.End == 0 || e.End > res.RetSeq) {
				o.Violate(cfg.prefix+"/returned-before-nodes-finished", fmt.Sprintf("%s finished at %d, the call returned at %d", e.Path, e.End, res.RetSeq))
			}
		}
	}
	tmConservation(o, cfg.prefix, s, res != nil && res.Err == nil && !hasWorkflow(p))
	foldEnv(o, env)
	o.Stat("mode."+modeNames[p.Mode], 1)
	o.Stat("paradigm."+paradigmNames[call.Paradigm], 1)
	o.Stat("model."+map[bool]string{true: "value", false: "error"}[mr.Err == ErrNone], 1)
	if mr.Err != ErrNone {
		o.Stat("model.err."+mr.Err, 1)
	}
	o.Stat("supersteps", mr.Steps)
	o.Stat("node_executions", len(env.Execs))
	return o
}

var graphReal = []string{"compose (graph, chain, workflow, run loop, task manager, channels, branches, state, checkpoint)", "schema streams", "internal/*", "callbacks", "Go runtime channels/mutexes/Once"}
var graphStub = []string{"node bodies, branch conditions, state handlers (harness lambdas computing provenance terms)", "stream producers/consumers (harness tasks)", "multi-ready select choice and map-derived orders (seams)"}

func init() {
	core.Register(&core.Profile{
		RaceQuick: 200, RaceThorough: 3000, ID: "C01", Engine: "graphsim", Quick: 2500, Thorough: 60000, ThoroughSeeds: 3,
		Run: func(t *kernel.Tape, o core.Opts) *core.Outcome {
			if t.Plan(4) == 0 {
				return runChain(t, o, "C01") // chains: sequential composition, parallel stages merged by key
			}
			return runBasic(t, o, basicCfg{prefix: "C01", alone: true,
				gen:       GenOpts{Modes: []int{ModePregel}, MaxNodes: 7, Depth: 2, Cycles: true, Streams: true, Yields: 1, State: 0},
				paradigms: []int{PInvoke, PInvoke, PStream, PCollect, PTransform}})
		},
		Rule: "1 in 4 runs draws a chain (1-5 stages: lambda, parallel of 2-3 lambdas with output keys, single/multi/stream branch over 2-3 alternatives, pass-through, nested graph) compared with sequential composition; the others draw a Pregel plan (1-7 nodes, fan-out/fan-in, single and multi-way branches with scripted outcome sequences, back edges, pass-through nodes, nested Pregel graphs to depth 2, step limit 1-12 or default), one call (any paradigm) and one schedule; compared with the reference superstep interpreter (result or error class, multiset of (node path, input) executions, per-node execution count <= limit, nested plan also run alone); non-trivial = >=2 live tasks and >=1 step with >=2 candidates; distinct = distinct (plan hash, schedule signature); 1 chain in 8 keeps an adjacency the library must refuse at build time (refused, or else sequential composition); a quarter of the plans type some outputs statically as any; 1 in 5 Pregel plans passes a step limit with the call (lower or higher than the compiled one); chain branch alternatives may carry explicit node keys; a quarter of the graph plans let successors of nodes with an output key read it with an input key; 1 plan in 7 builds two lambda nodes from one Lambda value; 3 runs in 10 pass an undesignated lambda option that every lambda execution at any depth must receive",
		Real: graphReal, Stub: graphStub,
		Faults: []string{"node completion order", "map-order perturbation", "step limit hit"},
	})
	core.Register(&core.Profile{
		ID: "C02", Engine: "graphsim", Quick: 2500, Thorough: 60000, ThoroughSeeds: 3,
		Run: func(t *kernel.Tape, o core.Opts) *core.Outcome {
			return runBasic(t, o, basicCfg{prefix: "C02",
				gen:       GenOpts{Modes: []int{ModeDAG, ModeWorkflow}, MaxNodes: 7, Depth: 2, Streams: true, Yields: 1, State: 0},
				paradigms: []int{PInvoke, PInvoke, PStream, PCollect, PTransform}})
		},
		Rule: "each run draws an AllPredecessor graph or a Workflow (control+data, data-only and control-only dependencies, field mappings, static values, single and multi-way branches incl. empty selections, converging branches, nested graphs), one call and one schedule; compared with the reference trigger/skip interpreter (result or error class, multiset of executions, at most once); workflow lambdas may carry an output key and successors may map nested field paths",
		Real: graphReal, Stub: graphStub,
		Faults: []string{"node completion order (eager: who finishes first)", "map-order perturbation", "skip cascades"},
	})
	core.Register(&core.Profile{
		ID: "C03", Engine: "graphsim", Quick: 2500, Thorough: 60000, ThoroughSeeds: 3,
		Run: func(t *kernel.Tape, o core.Opts) *core.Outcome {
			if t.Plan(5) == 0 {
				return runAfterAbort(t, o) // a run started while nodes of an earlier, failed run still finish
			}
			return runBasic(t, o, basicCfg{prefix: "C03",
				gen:       GenOpts{Modes: []int{ModePregel, ModeDAG, ModeWorkflow, ModeWorkflow}, MaxNodes: 7, Depth: 1, Cycles: true, Streams: false, Yields: 3, State: 30, Handlers: true, SeeState: true, Parallelism: true},
				paradigms: []int{PInvoke, PInvoke, PStream}})
		},
		Rule: "plans with >=3 parallel START successors in all three modes (batch and eager execution), node bodies that yield 0-3 times, every interleaving point of executor goroutines and run loop (tm.exec.enter, tm.push.pre, tm.wait.pre, tm.wait.post); oracle: result and execution multiset equal the model on every schedule, push/hand-off/collect conservation per run loop, deadlock detector, no return before executions finished; 30% of the plans have state with handlers, and in Pregel plans the pre-handlers copy into the node input how many body/post-handler updates the state has seen (fixed at the start of a superstep)",
		Real: graphReal, Stub: graphStub,
		Faults: []string{"node completion order", "stalled node (starve policy)", "map-order perturbation"},
	})
}

// controlReachesEnd: the top-level nodes from which END is reachable along control edges
// and branch targets.
func controlReachesEnd(p *Plan) map[string]bool {
	reach := map[string]bool{"end": true}
	for changed := true; changed; {
		changed = false
		mark := func(from, to string) {
			if reach[to] && !reach[from] {
				reach[from] = true
				changed = true
			}
		}
		for _, e := range p.Edges {
			if e.Ctrl {
				mark(e.From, e.To)
			}
		}
		for _, b := range p.Branches {
			for _, t := range b.Targets {
				mark(b.From, t)
			}
		}
	}
	return reach
}

func hasDAG(p *Plan) bool {
	if p.Mode != ModePregel {
		return true
	}
	for _, n := range p.Nodes {
		if n.Kind == KSub && hasDAG(n.Sub) {
			return true
		}
	}
	return false
}

// execsComparable: the set of executions is fixed by the properties when the run yields a
// value, and in Pregel mode also when it ends with the step-limit or no-task error. When a
// node fails, or when END becomes unreachable in an all-predecessor graph (eino then fails
// at once), which of the other nodes still run is not fixed by any property.
func execsComparable(p *Plan, mr *ModelResult) bool {
	switch mr.Err {
	case ErrNone:
		return true
	case ErrMaxSteps, ErrNoTasks:
		return !hasDAG(p)
	}
	return false
}

// runAfterAbort: the first call fails (one node fails for that call only) while sibling
// nodes may still be running (eager mode) or just finished; the second call on the same
// compiled object must be collected completely and independently: its result and its
// executions equal the fault-free reference model.
func runAfterAbort(t *kernel.Tape, opt core.Opts) *core.Outcome {
	o := &core.Outcome{}
	g := GenOpts{Modes: []int{ModeWorkflow, ModeWorkflow, ModeDAG, ModePregel}, MaxNodes: 6, Depth: 1, Cycles: true, Yields: 3, Parallelism: true}
	p := Generate(t, g)
	maybeAnyTypes(t, p)
	ls := lambdas(p, "")
	in := M{"in": fmt.Sprintf("x%d", t.Plan(3))}
	mr := RunModel(p, in) // fault-free
	if len(ls) > 0 {
		l := ls[t.Plan(len(ls))]
		l.n.FailAt, l.n.FailKind, l.n.FailTag = 0, t.Plan(2), "r0"
	}
	calls := []*Call{{Tag: "r0", Paradigm: PInvoke, In: in, StopAfter: -1}, {Tag: "r1", Paradigm: t.Plan(2), In: in, StopAfter: -1}}
	o.Sample = p.Render() + " afterAbort second=" + paradigmNames[calls[1].Paradigm]
	o.PlanHash = planHash(o.Sample)
	s := kernel.New(t, 80*countNodes(p))
	defer s.Close()
	s.KeepTrace = opt.KeepTrace
	env := NewEnv(s)
	r, err := (&builder{env: env, top: p}).Compile(context.Background(), p)
	if err != nil {
		o.Infra = "generated plan does not compile: " + err.Error() + " :: " + o.Sample
		return o
	}
	results := make([]*CallResult, 2)
	s.Go("caller0", func() {
		for i, c := range calls {
			results[i] = doCall(env, r, c)
		}
	})
	kr := s.Run(80000)
	core.FinishKernel(o, s, kr, "C03")
	if o.Infra != "" || kr.Budget {
		return o
	}
	for i := range results {
		if results[i] == nil || !results[i].Done {
			o.Violate("C03/hang", fmt.Sprintf("call %d never returned; unfinished tasks: %s\n%s", i, strings.Join(kr.Unfinished, ","), stacksOf(kr.Blocked)))
			return o
		}
	}
	if results[0].Err != nil {
		o.Stat("probe.first_run_aborted", 1)
	}
	checkAgainstModel(o, "C03/after-aborted-run", p, env, calls[1], results[1], mr, execsComparable(p, mr))
	foldEnv(o, env)
	o.Stat("scenario.after_abort", 1)
	o.Stat("mode."+modeNames[p.Mode], 1)
	return o
}
