package graphsim

import (
	"context"
	"errors"
	"fmt"
	"strings"

	"github.com/cloudwego/eino/compose"

	"verifsim/core"
	"verifsim/kernel"
)

type lnode struct {
	p    *Plan
	n    *Node
	path string
}

func lambdas(p *Plan, path string) []lnode {
	var out []lnode
	for _, n := range p.Nodes {
		full := joinPath(path, n.Key)
		switch n.Kind {
		case KLambda:
			out = append(out, lnode{p, n, full})
		case KSub:
			out = append(out, lambdas(n.Sub, full)...)
		}
	}
	return out
}

// injectFaults makes 1-2 lambda nodes fail. kinds: allowed failure kinds.
func injectFaults(t *kernel.Tape, p *Plan, kinds []int, two bool) []lnode {
	ls := lambdas(p, "")
	if len(ls) == 0 {
		return nil
	}
	k := 1
	if two && len(ls) > 1 && t.PlanBool(30) {
		k = 2
	}
	var chosen []lnode
	for i := 0; i < k; i++ {
		l := ls[t.Plan(len(ls))]
		if l.n.FailAt >= 0 {
			continue
		}
		l.n.FailAt = 0
		if t.PlanBool(20) {
			l.n.FailAt = 1
		}
		l.n.FailKind = kinds[t.Plan(len(kinds))]
		if l.n.FailKind == 2 && !l.n.Native[PStream] && !l.n.Native[PTransform] {
			l.n.FailKind = 0
		}
		l.n.Early = false // the failure is raised when the node function is called
		if l.n.FailKind == 2 && t.PlanBool(50) {
			l.n.FailEOF = true // the error item wraps io.EOF (it is still an error item, not the end)
		}
		if l.n.FailKind == 1 && l.n.UseState && t.PlanBool(60) {
			l.n.FailInState = true // the panic is raised inside the ProcessState callback
		}
		chosen = append(chosen, l)
	}
	return chosen
}

// injectBranchFault makes the condition of one branch (at any nesting depth) fail at its first
// evaluation.
func injectBranchFault(t *kernel.Tape, p *Plan) bool {
	var all []*Branch
	var walk func(q *Plan)
	walk = func(q *Plan) {
		all = append(all, q.Branches...)
		for _, n := range q.Nodes {
			if n.Kind == KSub {
				walk(n.Sub)
			}
		}
	}
	walk(p)
	if len(all) == 0 {
		return false
	}
	all[t.Plan(len(all))].FailEval = 1
	return true
}

// runC04: one plan, the four paradigms one after the other on the same compiled runnable.
func runC04(t *kernel.Tape, opt core.Opts) *core.Outcome {
	o := &core.Outcome{}
	g := GenOpts{Modes: []int{ModePregel, ModeDAG, ModeWorkflow}, MaxNodes: 6, Depth: 2, Cycles: true, State: 40, Streams: true, Handlers: true, Yields: 1}
	variant := t.Plan(20) // 0: duplicate-key fan-in allowed, 1: missing map key allowed, else regular
	if variant == 0 {
		g.AllowDupKeys = true
	}
	if variant == 1 {
		g.AllowMissingKey = true
		g.Modes = []int{ModeWorkflow}
	}
	p := Generate(t, g)
	var faults []lnode
	if variant > 2 && t.PlanBool(35) {
		faults = injectFaults(t, p, []int{0, 0, 1, 2}, false)
	} else if variant > 2 && t.PlanBool(8) {
		injectBranchFault(t, p) // a branch condition that returns an error
	}
	// static output types: some nodes and nested graphs are typed `any` (same values); variant 2
	// lets such outputs take part in fan-ins (reported separately, known finding)
	nAny := 0
	if variant == 2 {
		nAny = decorateAnyTypes(t, p, 40, true)
	} else if variant > 2 && t.PlanBool(40) {
		nAny = decorateAnyTypes(t, p, 25, false)
	}
	nInKey := 0
	if variant > 2 && t.PlanBool(40) {
		nInKey = decorateInputKeys(t, p, 60) // successors of nodes with an output key may read it with an input key
	}
	if variant > 2 && t.PlanBool(30) {
		// some nodes carry a progress counter (an integer: the last chunk wins)
		for _, l := range lambdas(p, "") {
			if t.PlanBool(40) {
				l.n.Interim = true
			}
		}
	}
	in := M{"in": fmt.Sprintf("x%d", t.Plan(3))}
	order := []int{PInvoke, PStream, PCollect, PTransform}
	for i := 3; i > 0; i-- {
		j := t.Plan(i + 1)
		order[i], order[j] = order[j], order[i]
	}
	inCut, inPipe := t.Plan(4), t.PlanBool(50)
	o.Sample = p.Render() + fmt.Sprintf(" order=%v variant=%d", order, variant)
	o.PlanHash = planHash(o.Sample)
	mr := RunModel(p, in)
	var mrNoFault *ModelResult
	if len(faults) > 0 {
		saved := map[*Node]int{}
		for _, f := range faults {
			saved[f.n] = f.n.FailAt
			f.n.FailAt = -1
		}
		mrNoFault = RunModel(p, in)
		for n, v := range saved {
			n.FailAt = v
		}
	}

	s := kernel.New(t, 60*countNodes(p))
	defer s.Close()
	s.KeepTrace = opt.KeepTrace
	env := NewEnv(s)
	b := &builder{env: env, top: p}
	r, err := b.Compile(context.Background(), p)
	if err != nil && nAny > 0 {
		// the library may refuse a combination of static types at build time: the plan then runs
		// with its ordinary types
		o.Stat("any_types_refused_at_build", 1)
		o.Stat("any_refused: "+refusalKind(err.Error()), 1)
		clearAnyTypes(p)
		nAny = 0
		r, err = b.Compile(context.Background(), p)
	}
	if err != nil {
		o.Infra = "generated plan does not compile: " + err.Error() + " :: " + o.Sample
		return o
	}
	o.Stat("any_typed_outputs", nAny)
	o.Stat("input_keyed_nodes", nInKey)
	results := make([]*CallResult, 4)
	calls := make([]*Call, 4)
	s.Go("caller0", func() {
		for i, par := range order {
			calls[i] = &Call{Tag: fmt.Sprintf("r%d", i), Paradigm: par, In: in, InCut: inCut, InPipe: inPipe, StopAfter: -1}
			results[i] = doCall(env, r, calls[i])
		}
	})
	kr := s.Run(80000)
	core.FinishKernel(o, s, kr, "C04")
	if o.Infra != "" || kr.Budget {
		return o
	}
	for i := range results {
		if results[i] == nil || !results[i].Done {
			o.Violate("C04/hang", fmt.Sprintf("the %s call never returned; unfinished tasks: %s\n%s", paradigmNames[order[i]], strings.Join(kr.Unfinished, ","), stacksOf(kr.Blocked)))
			return o
		}
	}
	if len(kr.Blocked) > 0 {
		o.Stat("probe.goroutines_left_behind", len(kr.Blocked))
	}
	midStream := false
	for _, f := range faults {
		if f.n.FailKind == 2 {
			midStream = true
		}
	}
	anyFan := false
	classes := make([]string, 4)
	for i, res := range results {
		c := calls[i]
		if res.Panic != nil {
			o.Violate("C04/panic-escaped-call", fmt.Sprintf("%s: %v", paradigmNames[c.Paradigm], res.Panic))
			continue
		}
		classes[i] = errClass(res.Err)
	}
	// variant 0: the merge failure shows wherever Invoke merges equal keys, also in a step in
	// which the model's run already returns (END fed in the same step)
	dupSeen := variant == 0 && mr.Err == ErrMerge
	for i := range results {
		if variant == 0 && order[i] == PInvoke && classes[i] == ErrMerge {
			dupSeen = true
		}
	}
	switch {
	case dupSeen:
		// fan-in of equal map keys: every paradigm has to report the failure
		for i, res := range results {
			if res.Err == nil {
				o.Violate("C04/duplicate-key-fan-in-not-reported:"+paradigmNames[order[i]], fmt.Sprintf("two predecessors deliver the same map key; the model (and Invoke) report a merge failure, %s returned %q", paradigmNames[order[i]], Canon(res.Out)))
			}
		}
		o.Stat("probe.dup_key_plan", 1)
	case variant == 1 && mr.Err == ErrMissingKey:
		for i, res := range results {
			if res.Err == nil {
				o.Violate("C04/missing-map-key-not-reported:"+paradigmNames[order[i]], fmt.Sprintf("a field mapping reads a map key its source does not carry; Invoke fails, %s returned %q", paradigmNames[order[i]], Canon(res.Out)))
			}
		}
		o.Stat("probe.missing_key_plan", 1)
	case variant == 2 && nAny > 0 && mr.Err == ErrNone && anyFanInFailure(results, order):
		// fan-in of a statically any-typed output: Invoke merges by the values' dynamic type, the
		// streaming paradigms compare static chunk types and fail
		anyFan = true
		for i, res := range results {
			if order[i] != PInvoke && isAnyFanInErr(res.Err) {
				o.Violate("C04/any-typed-fan-in-fails-in-stream-paradigms-only:"+paradigmNames[order[i]], fmt.Sprintf("a fan-in receives a value whose static type is any; Invoke returns %q, %s fails: %s", Canon(mr.Out), paradigmNames[order[i]], firstLine(lastLines(res.Err.Error()))))
				continue
			}
			checkAgainstModel(o, "C04", p, env, calls[i], res, mr, execsComparable(p, mr))
		}
		o.Stat("probe.any_fan_in_plan", 1)
	default:
		for i, res := range results {
			c := calls[i]
			streamMode := c.Paradigm != PInvoke
			if midStream && streamMode && mr.Err == ErrNode && errClass(res.Err) != ErrNode {
				// an error item on a stream nobody had to read that far: the run must then behave
				// exactly like the fault-free one (value or error)
				checkAgainstModel(o, "C04", p, env, c, res, mrNoFault, false)
				o.Stat("probe.error_item_not_consumed", 1)
				continue
			}
			checkAgainstModel(o, "C04", p, env, c, res, mr, execsComparable(p, mr) && !hasLazy(p))
		}
	}
	// agreement among the paradigms themselves (independent of the model)
	for i := 1; i < 4; i++ {
		a, bb := results[0], results[i]
		if a.Panic != nil || bb.Panic != nil || (midStream && mr.Err == ErrNode) || len(mr.AltErr) > 0 {
			continue
		}
		if variant <= 1 && (mr.Err == ErrMerge || mr.Err == ErrMissingKey) || anyFan || dupSeen {
			continue // reported above under its own class
		}
		if (a.Err == nil) != (bb.Err == nil) {
			o.Violate("C04/paradigms-disagree", fmt.Sprintf("%s: err=%v; %s: err=%v", paradigmNames[order[0]], a.Err, paradigmNames[order[i]], bb.Err))
		} else if a.Err == nil && bb.Err == nil && Canon(a.Out) != Canon(bb.Out) {
			o.Violate("C04/paradigms-disagree", fmt.Sprintf("%s: %q; %s: %q", paradigmNames[order[0]], Canon(a.Out), paradigmNames[order[i]], Canon(bb.Out)))
		}
	}
	foldEnv(o, env)
	o.Stat("mode."+modeNames[p.Mode], 1)
	o.Stat("model."+map[bool]string{true: "value", false: "error:" + mr.Err}[mr.Err == ErrNone], 1)
	o.Stat("node_executions", len(env.Execs))
	if len(faults) > 0 {
		o.Stat("fault.plans_with_failing_node", 1)
	}
	return o
}

// refusalKind strips node names from a build error.
func refusalKind(s string) string {
	s = firstLine(s)
	for _, cut := range []string{"mismatch", "type["} {
		if i := strings.Index(s, cut); i >= 0 {
			s = s[:i+len(cut)]
			break
		}
	}
	if len(s) > 90 {
		s = s[len(s)-90:]
	}
	return s
}

func isAnyFanInErr(err error) bool {
	return err != nil && (strings.Contains(err.Error(), "(mergeStream) chunk type mismatch") || strings.Contains(err.Error(), "(mergeValues | stream type) unsupported chunk type"))
}

// anyFanInFailure: Invoke succeeded and at least one streaming paradigm failed in the merge of
// statically differently typed streams.
func anyFanInFailure(results []*CallResult, order []int) bool {
	inv, str := false, false
	for i, r := range results {
		if order[i] == PInvoke && r.Err == nil && r.Panic == nil {
			inv = true
		}
		if order[i] != PInvoke && isAnyFanInErr(r.Err) {
			str = true
		}
	}
	return inv && str
}

// lastLines: the message of a run error without its leading tag line.
func lastLines(s string) string {
	if i := strings.Index(s, "\n"); i >= 0 && i+1 < len(s) {
		return s[i+1:]
	}
	return s
}

// hasLazy: a plan with lazily reading transforms (their inputs may stay unknown in
// non-consumed positions; call counts are still compared).
func hasLazy(p *Plan) bool { return false }

// runC13: failures are identifiable and unwrappable, panics are contained.
func runC13(t *kernel.Tape, opt core.Opts) *core.Outcome {
	o := &core.Outcome{}
	scenario := t.Plan(10) // 0-5 node fault, 6-7 cancel, 8-9 step limit
	g := GenOpts{Modes: []int{ModePregel, ModeDAG, ModeWorkflow}, MaxNodes: 6, Depth: 2, Cycles: true, State: 20, Streams: true, Handlers: true, Yields: 2, Parallelism: scenario < 6 && t.PlanBool(50)}
	if scenario >= 8 {
		g.Modes = []int{ModePregel}
		g.ForceLoop = true
	}
	p := Generate(t, g)
	maybeAnyTypes(t, p)
	maybeInputKeys(t, p)
	var faults []lnode
	if scenario < 6 {
		faults = injectFaults(t, p, []int{0, 1, 0, 1, 2}, true)
	}
	in := M{"in": fmt.Sprintf("x%d", t.Plan(3))}
	call := &Call{Tag: "r0", Paradigm: t.Plan(4), In: in, InCut: t.Plan(3), InPipe: t.PlanBool(50), StopAfter: -1}
	cancelAfter := -1
	var cancel context.CancelFunc
	if scenario == 6 || scenario == 7 {
		cancelAfter = t.Plan(12)
		call.Ctx, cancel = context.WithCancel(context.Background())
		if t.PlanBool(50) {
			// cancelled with a cause of the caller's own: the run error must still match context.Canceled
			var cc context.CancelCauseFunc
			call.Ctx, cc = context.WithCancelCause(context.Background())
			cancel = func() { cc(errors.New("the operator gave up")) }
		}
	}
	o.Sample = p.Render() + fmt.Sprintf(" call=%s scenario=%d cancelAfter=%d", paradigmNames[call.Paradigm], scenario, cancelAfter)
	o.PlanHash = planHash(o.Sample)
	mr := RunModel(p, in)
	mrNoFault := mr
	if len(faults) > 0 {
		saved := map[*Node]int{}
		for _, f := range faults {
			saved[f.n] = f.n.FailAt
			f.n.FailAt = -1
		}
		mrNoFault = RunModel(p, in)
		for n, v := range saved {
			n.FailAt = v
		}
	}

	s := kernel.New(t, 60*countNodes(p))
	defer s.Close()
	s.KeepTrace = opt.KeepTrace
	env := NewEnv(s)
	b := &builder{env: env, top: p}
	r, err := b.Compile(context.Background(), p)
	if err != nil {
		o.Infra = "generated plan does not compile: " + err.Error() + " :: " + o.Sample
		return o
	}
	var res, res2 *CallResult
	twice := cancel == nil // the same failure twice: the second report must look like the first
	s.Go("caller0", func() {
		res = doCall(env, r, call)
		if twice {
			c2 := *call
			c2.Tag = "r1"
			res2 = doCall(env, r, &c2)
		}
	})
	if cancel != nil {
		s.Go("canceller", func() {
			for i := 0; i < cancelAfter; i++ {
				s.Yield("canceller.wait")
			}
			env.Faults["context_cancelled"]++
			cancel()
		})
	}
	kr := s.Run(80000)
	core.FinishKernel(o, s, kr, "C13")
	if o.Infra != "" || kr.Budget {
		return o
	}
	if res == nil || !res.Done {
		o.Violate("C13/hang", "the call never returned; unfinished tasks: "+strings.Join(kr.Unfinished, ",")+"\n"+stacksOf(kr.Blocked))
		return o
	}
	if res.Panic != nil {
		o.Violate("C13/panic-escaped-call", fmt.Sprintf("%s: %v", paradigmNames[call.Paradigm], res.Panic))
		return o
	}
	if twice && (res2 == nil || !res2.Done) {
		o.Violate("C13/hang", "the second call never returned; unfinished tasks: "+strings.Join(kr.Unfinished, ",")+"\n"+stacksOf(kr.Blocked))
		return o
	}
	midStreamFault := false
	for _, f := range faults {
		if f.n.FailKind == 2 {
			midStreamFault = true // whoever reads the error item first reports it
		}
	}
	if twice && res2.Panic == nil && res.Err != nil && res2.Err != nil && len(faults) <= 1 && len(mr.AltErr) == 0 && !midStreamFault {
		// a failure report does not depend on earlier failures of the same compiled object
		if a, b := errShape(res.Err), errShape(res2.Err); a != b && errClass(res.Err) == errClass(res2.Err) {
			o.Violate("C13/error-report-depends-on-earlier-runs", fmt.Sprintf("the same failure was reported as %q by the first call and as %q by the second", a, b))
		}
	}
	triggered := map[string]*ExecRec{}
	for _, e := range env.Execs {
		// (a node of an eager run that fails after the call has already returned is not a
		// failure of that call)
		if e.Failed && e.Tag == "r0" && e.Start <= res.EndSeq {
			triggered[e.Path] = e
		}
	}
	pathText := func(path string) string {
		return "node path: [" + strings.Join(strings.Split(path, "/"), ", ") + "]"
	}
	// several failures can compete (a failing node and a nested graph running out of steps
	// in the same batch): any of the classes the model allows may be the one reported
	expect := mr.Err
	if res.Err != nil && cancel == nil {
		got := errClass(res.Err)
		for _, a := range mr.AltErr {
			if sameErr(a, got) {
				expect = a
			}
		}
	}
	switch {
	case cancel != nil:
		// either the run completed as if nothing happened, or it reports the cancellation
		if res.Err != nil {
			if !errors.Is(res.Err, context.Canceled) {
				if strings.Contains(res.Err.Error(), "context has been canceled") || strings.Contains(res.Err.Error(), context.Canceled.Error()) {
					o.Violate("C13/not-unwrappable:context.Canceled", "the run was cancelled and says so, but errors.Is(err, context.Canceled) is false: "+firstLine(res.Err.Error()))
				} else if !sameErr(mr.Err, errClass(res.Err)) {
					o.Violate("C13/unexpected-error-after-cancel", firstLine(res.Err.Error()))
				}
			}
			o.Stat("probe.cancel_observed", 1)
		} else if mr.Err == ErrNone && Canon(res.Out) != Canon(mr.Out) {
			o.Violate("C13/result-mismatch", fmt.Sprintf("model %q, run %q", Canon(mr.Out), Canon(res.Out)))
		}
	case expect == ErrMaxSteps:
		o.Stat("probe.step_limit_hit", 1)
		if res.Err == nil {
			o.Violate("C13/result-mismatch", "model says the step limit is exceeded, the run returned "+Canon(res.Out))
		} else if errors.Is(res.Err, compose.ErrExceedMaxSteps) {
			// the error names the nested graph that ran out of steps (nothing for the top level)
			want := ""
			if mr.ErrPath != "" {
				want = pathText(mr.ErrPath)
			}
			if got := nodePathOf(res.Err.Error()); got != want && len(mr.AltErr) == 0 {
				o.Violate("C13/node-path-missing", fmt.Sprintf("step limit exceeded in graph %q: the error should carry %q, it carries %q", mr.ErrPath, want, got))
			}
		} else {
			if strings.Contains(res.Err.Error(), compose.ErrExceedMaxSteps.Error()) {
				o.Violate("C13/not-unwrappable:ErrExceedMaxSteps", "the run exceeded the step limit and says so, but errors.Is(err, compose.ErrExceedMaxSteps) is false: "+firstLine(res.Err.Error()))
			} else {
				o.Violate("C13/result-mismatch", "model says the step limit is exceeded, the run returned another error: "+firstLine(res.Err.Error()))
			}
		}
	case expect == ErrNode:
		// an error item in the middle of a stream only fails the run if somebody has to read
		// that far; if not, the run must behave exactly like the fault-free one
		midOnly := call.Paradigm != PInvoke
		for _, f := range faults {
			if f.n.FailKind != 2 && triggered[f.path] != nil {
				midOnly = false
			}
		}
		var probe *InjErr
		if midOnly && (res.Err == nil || !errors.As(res.Err, &probe)) {
			checkAgainstModel(o, "C13", p, env, call, res, mrNoFault, false)
			o.Stat("probe.error_item_not_consumed", 1)
			break
		}
		if res.Err == nil {
			o.Violate("C13/failure-swallowed", fmt.Sprintf("nodes %v failed, the %s call returned %q without error", keysOf(triggered), paradigmNames[call.Paradigm], Canon(res.Out)))
			break
		}
		msg := res.Err.Error()
		var ie *InjErr
		var hit *lnode
		if errors.As(res.Err, &ie) {
			for i := range faults {
				if faults[i].path == ie.Path {
					hit = &faults[i]
				}
			}
			if hit == nil || triggered[ie.Path] == nil {
				o.Violate("C13/wrong-failure-reported", fmt.Sprintf("the error unwraps to %v, which is not a failure that was injected and reached", ie))
			}
		} else {
			// a panic carries no sentinel: its value must appear in the error; an injected error must unwrap
			for i := range faults {
				f := &faults[i]
				if triggered[f.path] == nil {
					continue
				}
				if f.n.FailKind == 1 && strings.Contains(msg, "PANIC<"+f.path+"#") {
					hit = f
				}
			}
			if hit == nil {
				if strings.Contains(msg, "INJECTED<") {
					o.Violate("C13/not-unwrappable:node-error", "the run error mentions the injected node error, but errors.As cannot recover it: "+firstLine(msg))
				} else {
					o.Violate("C13/failure-not-identifiable", "the run failed, but the error neither unwraps to an injected error nor carries the panic value: "+strings.ReplaceAll(tailOf(msg, 400), "\n", " | ")+fmt.Sprintf(" (model: %s alt %v execs %v)", mr.Err, mr.AltErr, mr.Execs))
				}
				break
			}
		}
		if hit != nil && hit.n.FailKind != 2 && !res.StreamErr {
			if !strings.Contains(msg, pathText(hit.path)) {
				o.Violate("C13/node-path-missing", fmt.Sprintf("failing node %s: the error does not contain %q: %s", hit.path, pathText(hit.path), strings.ReplaceAll(tailOf(msg, 300), "\n", " | ")))
			}
		}
		o.Stat("probe.failure_reported", 1)
		if len(triggered) > 1 {
			o.Stat("probe.several_nodes_failed", 1)
		}
	default:
		checkAgainstModel(o, "C13", p, env, call, res, mr, execsComparable(p, mr))
	}
	foldEnv(o, env)
	o.Stat("scenario."+[]string{"fault", "fault", "fault", "fault", "fault", "fault", "cancel", "cancel", "steplimit", "steplimit"}[scenario], 1)
	o.Stat("mode."+modeNames[p.Mode], 1)
	return o
}

func keysOf(m map[string]*ExecRec) []string {
	var ks []string
	for k := range m {
		ks = append(ks, k)
	}
	return ks
}

func tailOf(s string, n int) string {
	if len(s) > n {
		return s[len(s)-n:]
	}
	return s
}

func init() {
	core.Register(&core.Profile{
		ID: "C04", Engine: "graphsim", Quick: 1500, Thorough: 40000, ThoroughSeeds: 3, Run: runC04,
		Rule: "each run draws a plan in any mode (native paradigm subset per node, chunkings incl. empty chunks, pipe or array streams, lazily reading transforms, state handlers in value and stream form, output keys, field mappings, stream branches reading a prefix), optionally one failing node (error, panic, error item mid-stream), calls Invoke, Stream, Collect and Transform in a drawn order on the same compiled object, and one schedule; oracle: every paradigm equals the reference model and the others; failures in all four; 1 in 20 plans allows duplicate-key fan-in, 1 in 20 a mapping from a missing key (reported separately); 2 in 5 plans type some lambda outputs and nested graphs statically as any (runtime type checks on edges and before branches), 1 in 20 lets such an output take part in a fan-in (known finding); 1 plan in 20 has a branch condition that returns an error; some nodes carry an integer progress counter whose interim value is streamed before the final one (last chunk wins); successors of nodes with an output key may read it with an input key",
		Real: graphReal, Stub: graphStub,
		Faults: []string{"node error", "node panic", "error item mid-stream", "chunk arrival interleaving", "producer/consumer order"},
	})
	core.Register(&core.Profile{
		ID: "C13", Engine: "graphsim", Quick: 2500, Thorough: 60000, ThoroughSeeds: 3, Run: runC13,
		Rule: "each run draws a plan in any mode and one scenario: 1-2 failing nodes at any nesting depth (error sentinel, panic, error item mid-stream; possibly in the same superstep), context cancellation at a drawn scheduler step, or a cyclic plan running into its step limit; one call in any paradigm; oracle: errors.As recovers the injected sentinel / the panic value is in the error, the message names the failing node path, errors.Is matches ErrExceedMaxSteps and context.Canceled, no panic escapes, no hang; a panicking node that uses the state may panic inside the ProcessState callback; half of the mid-stream error items wrap io.EOF; half of the cancellations carry a cause of the caller's own",
		Real: graphReal, Stub: graphStub,
		Faults: []string{"node error", "node panic", "several nodes failing in one step", "error item mid-stream", "context cancellation", "step limit"},
	})
}

// nodePathOf extracts the "node path: [...]" part of a run error ("" if absent).
func nodePathOf(msg string) string {
	i := strings.LastIndex(msg, "node path: [")
	if i < 0 {
		return ""
	}
	j := strings.IndexByte(msg[i:], ']')
	if j < 0 {
		return msg[i:]
	}
	return msg[i : i+j+1]
}

// errShape is the part of an error text that must not depend on anything but the failure
// itself: first line plus node path, without stacks and addresses.
func errShape(err error) string {
	m := err.Error()
	return firstLine(m) + " | " + nodePathOf(m) + " | " + errClass(err)
}
