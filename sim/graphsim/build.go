package graphsim

import (
	"context"
	"errors"
	"fmt"
	"github.com/cloudwego/eino/callbacks"
	"io"
	"strconv"
	"strings"

	"github.com/cloudwego/eino/compose"
	"github.com/cloudwego/eino/schema"

	"verifsim/kernel"
)

// St is the graph state used by stateful plans.
type St struct {
	N     int                       // number of handler / ProcessState invocations (commutative updates only)
	B     int                       // of those: node bodies and post-handlers
	Marks []string                  // who touched the state (order is schedule dependent, content is not)
	Tag   string                    // run tag of the run that generated this state
	ID    int                       // identity given by the generator function
	Saved map[string]map[string]any // inputs saved by the pre-handlers of nodes that may ask for a re-run
	Roles map[roleT]int             // a map keyed by a named string type (must survive a checkpoint round trip)
}

type roleT string

// nilTok: a typed nil *nilTok travels in some inputs (a nil pointer in an interface-typed slot
// is not the same thing as no value, also after a checkpoint round trip).
type nilTok struct{ X int }

func init() {
	_ = compose.RegisterSerializableType[St]("verif_state")
	_ = compose.RegisterSerializableType[map[string]any]("verif_map")
	_ = compose.RegisterSerializableType[nilTok]("verif_niltok")
	_ = compose.RegisterSerializableType[roleT]("verif_role")
	// nodes whose static output type is `any`: the application tells the framework how chunks of
	// that type concatenate (the framework cannot know for an interface type)
	compose.RegisterStreamChunkConcatFunc(func(vs []any) (any, error) {
		var acc M
		for _, v := range vs {
			m, ok := v.(M)
			if !ok && v != nil {
				return nil, fmt.Errorf("chunk of type %T in a stream of maps", v)
			}
			acc = concatInto(acc, m)
		}
		return acc, nil
	})
}

type lopt struct{ Tag string }

type tagKey struct{}

// WithTag stamps a context with the caller's run tag.
func WithTag(ctx context.Context, tag string) context.Context {
	return context.WithValue(ctx, tagKey{}, tag)
}

func tagOf(ctx context.Context) string {
	if v, ok := ctx.Value(tagKey{}).(string); ok {
		return v
	}
	return "?"
}

// InjErr is the sentinel an injected node failure returns.
type InjErr struct {
	Path string
	Idx  int
	EOF  bool // the error wraps io.EOF
}

// Unwrap: an error that wraps io.EOF is an error all the same.
func (e *InjErr) Unwrap() error {
	if e.EOF {
		return io.EOF
	}
	return nil
}

func (e *InjErr) Error() string { return fmt.Sprintf("INJECTED<%s#%d>", e.Path, e.Idx) }

// ExecRec is one observed node execution.
type ExecRec struct {
	Tag      string
	Path     string
	Input    string
	Idx      int // execution index of this node in this run lineage (attempts included)
	Start    int // sequence numbers
	End      int
	Paradigm int
	Aborted  bool // answered InterruptAndRerun
	Failed   bool
	Known    bool // the input is known (a lazy transform may never learn it)
	Call     int  // index of the call of the history in which the execution started
	Step     int  // scheduler step at which the node function was called
}

// Env is the harness memory of one simulated history. Only the released task touches it.
type Env struct {
	S            *kernel.Sim
	seq          int
	Execs        []*ExecRec
	branchEval   map[string]int
	execCount    map[string]int // tag|path -> started executions
	doneCount    map[string]int // tag|path -> completed (not aborted) executions
	prodN        int
	States       []*St
	StatePath    map[*St]string
	CritCount    map[*St]int // entries into the critical section per state object
	CurCall      int
	LastState    map[string]*St // graph path -> state object last seen there
	StateLineage map[*St]string
	abortedLast  map[string]bool // tag|path -> the last attempt asked for a re-run
	ScriptOffset map[string]int  // run tag -> offset into the branch scripts (concurrent callers decide differently)
	inCrit       map[*St]string  // mutual exclusion monitor
	Problems     []Problem
	Faults       map[string]int
	Probes       map[string]int
	HandlerLog   []string
	OptWanted    map[string]bool // run tag -> the call carries an undesignated lambda option
	Prefix       string          // class prefix of the profile that runs (for problems found by the harness nodes)
	// SeenOpt records lambda options seen by node bodies: tag|path -> option tags
	Callbacks *CBLog
}

type Problem struct{ Class, Msg string }

func NewEnv(s *kernel.Sim) *Env {
	return &Env{S: s, branchEval: map[string]int{}, execCount: map[string]int{}, doneCount: map[string]int{},
		inCrit: map[*St]string{}, Faults: map[string]int{}, Probes: map[string]int{}, Callbacks: &CBLog{},
		StatePath: map[*St]string{}, CritCount: map[*St]int{}, LastState: map[string]*St{}, StateLineage: map[*St]string{}, OptWanted: map[string]bool{},
		abortedLast: map[string]bool{}, ScriptOffset: map[string]int{}}
}

func (e *Env) Seq() int { e.seq++; return e.seq }

func (e *Env) problem(class, msg string) {
	e.Problems = append(e.Problems, Problem{class, msg})
}

// ---- value helpers -------------------------------------------------------------------

// cutString splits v into pieces according to the chunking parameter.
func cutString(v string, cut int) []string {
	n := len(v)
	switch cut {
	case 1:
		return []string{v[:n/2], v[n/2:]}
	case 3:
		return []string{v[:n/3], v[n/3 : 2*n/3], v[2*n/3:]}
	case 4:
		if n >= 3 {
			return []string{v[:1], v[1:2], "", v[2:]}
		}
	}
	return []string{v}
}

// chunksOf cuts a map into stream chunks: by key and inside string values.
func chunksOf(m M, cut int) []M {
	if cut == 0 || len(m) == 0 {
		return []M{m}
	}
	var out []M
	if cut == 2 {
		out = append(out, M{})
	}
	for _, k := range sortedKeys(m) {
		switch v := m[k].(type) {
		case string:
			for _, piece := range cutString(v, cut) {
				out = append(out, M{k: piece})
			}
		case M:
			for _, sub := range chunksOf(v, cut) {
				out = append(out, M{k: sub})
			}
		default:
			out = append(out, M{k: v})
		}
	}
	return out
}

func sortedKeys(m M) []string {
	ks := make([]string, 0, len(m))
	for k := range m {
		ks = append(ks, k)
	}
	// insertion sort: tiny maps
	for i := 1; i < len(ks); i++ {
		for j := i; j > 0 && ks[j] < ks[j-1]; j-- {
			ks[j], ks[j-1] = ks[j-1], ks[j]
		}
	}
	return ks
}

// concatInto merges chunk c into acc (the harness' own, independent concatenation).
func concatInto(acc, c M) M {
	if acc == nil {
		acc = M{}
	}
	for k, v := range c {
		switch x := v.(type) {
		case string:
			if old, ok := acc[k].(string); ok {
				acc[k] = old + x
			} else if _, exists := acc[k]; !exists {
				acc[k] = x
			} else {
				acc[k] = fmt.Sprintf("<type clash %v + %v>", acc[k], x)
			}
		case M:
			old, _ := acc[k].(M)
			acc[k] = concatInto(old, x)
		case nil:
			if _, exists := acc[k]; !exists {
				acc[k] = nil
			}
		default:
			acc[k] = v
		}
	}
	return acc
}

// readAll drains a stream with the harness' own concatenation and closes it.
func readAll(sr *schema.StreamReader[M]) (M, int, error) {
	defer sr.Close()
	var acc M
	n := 0
	for {
		c, err := sr.Recv()
		if err == io.EOF {
			return acc, n, nil
		}
		if err != nil {
			return acc, n, err
		}
		n++
		acc = concatInto(acc, c)
	}
}

// ---- building ------------------------------------------------------------------------

type builder struct {
	env *Env
	top *Plan
	// store and interrupt configuration are applied at the top level only
	store compose.CheckPointStore
	// twins: the one Lambda value of every twin group (see Node.Twin)
	twins map[string]*compose.Lambda
}

// statePathOf returns the path of the nearest graph with state that encloses the node.
func (b *builder) statePathOf(full string) string {
	p := b.top
	path := ""
	statePath := ""
	parts := strings.Split(full, "/")
	for i := 0; i < len(parts)-1; i++ {
		n := p.node(parts[i])
		if n == nil || n.Sub == nil {
			break
		}
		path = joinPath(path, parts[i])
		p = n.Sub
		if p.State {
			statePath = path
		}
	}
	return statePath
}

// emit turns a value into a stream according to the node's chunking settings.
func (b *builder) emit(ctx context.Context, n *Node, full string, out M, failMid error) *schema.StreamReader[M] {
	chunks := interimChunks(n, chunksOf(out, n.Cut))
	if !n.Pipe && failMid == nil {
		return schema.StreamReaderFromArray(chunks)
	}
	sr, sw := schema.Pipe[M](n.Cut % 3)
	b.env.prodN++
	name := fmt.Sprintf("prod:%s:%s#%d", tagOf(ctx), full, b.env.prodN)
	b.env.S.Go(name, func() {
		defer sw.Close()
		for i, c := range chunks {
			if failMid != nil && i == len(chunks)/2 {
				sw.Send(nil, failMid)
				return
			}
			if sw.Send(c, nil) {
				b.env.Probes["producer_told_closed"]++
				return
			}
		}
		if failMid != nil {
			sw.Send(nil, failMid)
		}
	})
	return sr
}

// interimChunks: a node with a progress counter streams an interim value of it first (the final
// value, 0, comes with the ordinary chunks: integers concatenate last-wins).
func interimChunks(n *Node, chunks []M) []M {
	if !n.Interim {
		return chunks
	}
	if _, ok := mergeChunksHave(chunks, "z:"+n.Key); !ok {
		return chunks // (a failure placeholder, not the node's output)
	}
	return append([]M{{"z:" + n.Key: 7}}, chunks...)
}

func mergeChunksHave(chunks []M, key string) (any, bool) {
	for _, c := range chunks {
		if v, ok := c[key]; ok {
			return v, true
		}
	}
	return nil, false
}

// begin records that the node function was called (its input may not be known yet: a
// transform that reads its input lazily learns it later).
func (b *builder) begin(ctx context.Context, full string, paradigm int) *ExecRec {
	e := b.env
	tag := tagOf(ctx)
	ck := tag + "|" + full
	idx := e.execCount[ck]
	e.execCount[ck] = idx + 1
	rec := &ExecRec{Tag: tag, Path: full, Input: "?", Idx: idx, Start: e.Seq(), Paradigm: paradigm, Call: e.CurCall, Step: e.S.Step()}
	e.Execs = append(e.Execs, rec)
	e.S.Log(fmt.Sprintf("call %s %s #%d", tag, full, idx))
	return rec
}

// body is the common part of a lambda node: yields, state access, recording, faults.
func (b *builder) body(ctx context.Context, p *Plan, n *Node, full string, in M, rec *ExecRec) (M, error) {
	e := b.env
	tag := tagOf(ctx)
	ck := tag + "|" + full
	idx := rec.Idx
	rec.Input = Canon(in)
	rec.Known = true
	e.S.Log(fmt.Sprintf("exec %s %s <- %s", tag, full, rec.Input))
	for i := 0; i < n.Yields; i++ {
		e.S.Yield("body:" + full)
	}
	if n.Detach {
		// inner work the node wants no handler to see: a fresh callback context without handlers
		ictx := callbacks.InitCallbacks(ctx, &callbacks.RunInfo{Name: "inner:" + full, Type: "Inner", Component: compose.ComponentOfLambda})
		ictx = callbacks.OnStart(ictx, "inner-input")
		callbacks.OnEnd(ictx, "inner-output")
		e.Probes["detached_inner_work"]++
	}
	if n.UseState {
		failNow := n.FailInState && n.FailAt >= 0 && n.FailAt == e.doneCount[ck] && (n.FailTag == "" || n.FailTag == tag) &&
			!(n.RerunN > 0 && idx < n.RerunN && b.store != nil)
		err := compose.ProcessState[*St](ctx, func(ctx context.Context, st *St) error {
			b.critical(ctx, st, "body:"+full, b.statePathOf(full))
			if failNow {
				rec.Failed = true
				rec.End = e.Seq()
				e.Faults["node_panic_inside_process_state"]++
				panic(fmt.Sprintf("PANIC<%s#%d>", full, e.doneCount[ck]))
			}
			return nil
		})
		if err != nil {
			e.problem("C11/process-state-failed", fmt.Sprintf("%s: %v", full, err))
		}
	}
	done := e.doneCount[ck]
	if n.RerunN > 0 && idx < n.RerunN && b.store != nil {
		rec.Aborted = true
		rec.End = e.Seq()
		e.abortedLast[ck] = true
		e.Faults["interrupt_and_rerun"]++
		return nil, compose.InterruptAndRerun
	}
	if n.FailAt >= 0 && n.FailAt == done && (n.FailTag == "" || n.FailTag == tag) {
		rec.Failed = true
		rec.End = e.Seq()
		switch n.FailKind {
		case 1:
			e.Faults["node_panic"]++
			panic(fmt.Sprintf("PANIC<%s#%d>", full, done))
		default:
			e.Faults["node_error"]++
			return nil, &InjErr{Path: full, Idx: done, EOF: n.FailEOF && n.FailKind == 2}
		}
	}
	e.doneCount[ck] = done + 1
	rec.End = e.Seq()
	if n.Interim {
		return M{n.Key: NodeValue(n.Key, rec.Input), "z:" + n.Key: 0}, nil
	}
	return M{n.Key: NodeValue(n.Key, rec.Input)}, nil
}

// critical is the read-yield-write section every state access runs: it is the mutual
// exclusion and lost-update monitor of C11.
func (b *builder) critical(ctx context.Context, st *St, who string, statePath string) {
	e := b.env
	if st == nil {
		e.problem("C11/nil-state", who)
		return
	}
	e.LastState[statePath] = st
	e.StateLineage[st] = statePath
	if other, busy := e.inCrit[st]; busy {
		e.problem("C11/mutual-exclusion", fmt.Sprintf("%s entered the state critical section while %s was inside", who, other))
	}
	e.inCrit[st] = who
	e.CritCount[st]++
	v := st.N
	e.S.Yield("crit:" + who)
	st.N = v + 1
	if !strings.HasPrefix(who, "pre:") {
		st.B++
	}
	st.Marks = append(st.Marks, who)
	if e.inCrit[st] != who {
		e.problem("C11/mutual-exclusion", fmt.Sprintf("%s found %s in the critical section on leaving", who, e.inCrit[st]))
	}
	delete(e.inCrit, st)
	if tag := tagOf(ctx); st.Tag != "" && tag != "?" && st.Tag != tag {
		e.problem("C09/foreign-state", fmt.Sprintf("%s of run %s operated on the state of run %s", who, tag, st.Tag))
	}
}

// checkOpts: a call option reaches the node bodies of its own call only.
func (b *builder) checkOpts(ctx context.Context, full string, os []lopt) {
	tag := tagOf(ctx)
	if b.env.OptWanted[tag] && len(os) != 1 {
		b.env.problem(b.env.Prefix+"/call-option-not-delivered", fmt.Sprintf("the call of run %s carries one lambda option for every lambda node; node %s received %d", tag, full, len(os)))
	}
	for _, o := range os {
		b.env.Probes["lambda_option_seen"]++
		if o.Tag != tag {
			b.env.problem("C09/option-leak", fmt.Sprintf("node %s of run %s received the lambda option of run %s", full, tag, o.Tag))
		}
	}
}

func (b *builder) lambda(p *Plan, n *Node, full string) *compose.Lambda {
	if n.Twin != "" {
		// one Lambda value for all nodes of the twin group (per compilation)
		tfull := strings.TrimSuffix(full, n.Key) + n.Twin
		if l, ok := b.twins[tfull]; ok {
			return l
		}
		tn := *n
		tn.Key, tn.Twin, tn.OutKey, tn.InKey, tn.Pre, tn.Post = n.Twin, "", "", "", HNone, HNone
		l := b.lambda(p, &tn, tfull)
		if b.twins == nil {
			b.twins = map[string]*compose.Lambda{}
		}
		b.twins[tfull] = l
		return l
	}
	var fi compose.Invoke[M, M, lopt]
	var fs compose.Stream[M, M, lopt]
	var fc compose.Collect[M, M, lopt]
	var ft compose.Transform[M, M, lopt]
	if n.Native[PInvoke] {
		fi = func(ctx context.Context, in M, os ...lopt) (M, error) {
			b.checkOpts(ctx, full, os)
			return b.body(ctx, p, n, full, in, b.begin(ctx, full, PInvoke))
		}
	}
	midFail := func(err error) (error, bool) {
		var ie *InjErr
		if errors.As(err, &ie) && n.FailKind == 2 {
			return err, true
		}
		return nil, false
	}
	if n.Native[PStream] {
		fs = func(ctx context.Context, in M, os ...lopt) (*schema.StreamReader[M], error) {
			b.checkOpts(ctx, full, os)
			out, err := b.body(ctx, p, n, full, in, b.begin(ctx, full, PStream))
			if err != nil {
				if me, ok := midFail(err); ok {
					b.env.Faults["error_item_mid_stream"]++
					return b.emit(ctx, n, full, M{n.Key: "partial"}, me), nil
				}
				return nil, err
			}
			return b.emit(ctx, n, full, out, nil), nil
		}
	}
	if n.Native[PCollect] {
		fc = func(ctx context.Context, in *schema.StreamReader[M], os ...lopt) (M, error) {
			b.checkOpts(ctx, full, os)
			rec := b.begin(ctx, full, PCollect)
			v, _, err := readAll(in)
			if err != nil {
				return nil, err
			}
			return b.body(ctx, p, n, full, v, rec)
		}
	}
	if n.Native[PTransform] {
		ft = func(ctx context.Context, in *schema.StreamReader[M], os ...lopt) (*schema.StreamReader[M], error) {
			b.checkOpts(ctx, full, os)
			rec := b.begin(ctx, full, PTransform)
			if !n.Early {
				v, _, err := readAll(in)
				if err != nil {
					return nil, err
				}
				out, err := b.body(ctx, p, n, full, v, rec)
				if err != nil {
					if me, ok := midFail(err); ok {
						b.env.Faults["error_item_mid_stream"]++
						return b.emit(ctx, n, full, M{n.Key: "partial"}, me), nil
					}
					return nil, err
				}
				return b.emit(ctx, n, full, out, nil), nil
			}
			// early: a producer task emits an empty first chunk, then reads the input, computes
			// and emits the rest; the node call itself returns at once
			sr, sw := schema.Pipe[M](n.Cut % 3)
			b.env.prodN++
			name := fmt.Sprintf("xform:%s:%s#%d", tagOf(ctx), full, b.env.prodN)
			b.env.S.Go(name, func() {
				defer sw.Close()
				if sw.Send(M{}, nil) {
					in.Close()
					return
				}
				v, _, err := readAll(in)
				if err != nil {
					sw.Send(nil, err)
					return
				}
				var out M
				func() {
					defer func() {
						if r := recover(); r != nil {
							err = fmt.Errorf("panic in transform producer: %v", r)
						}
					}()
					out, err = b.body(ctx, p, n, full, v, rec)
				}()
				if err != nil {
					sw.Send(nil, err)
					return
				}
				for _, c := range interimChunks(n, chunksOf(out, n.Cut)) {
					if sw.Send(c, nil) {
						return
					}
				}
			})
			return sr, nil
		}
	}
	if n.AnyOut {
		return anyOutLambda(fi, fs, fc, ft)
	}
	l, err := compose.AnyLambda(fi, fs, fc, ft)
	if err != nil {
		panic(err)
	}
	return l
}

// anyOutLambda: the same node functions behind the static output type `any`.
func anyOutLambda(fi compose.Invoke[M, M, lopt], fs compose.Stream[M, M, lopt], fc compose.Collect[M, M, lopt], ft compose.Transform[M, M, lopt]) *compose.Lambda {
	var gi compose.Invoke[M, any, lopt]
	var gs compose.Stream[M, any, lopt]
	var gc compose.Collect[M, any, lopt]
	var gt compose.Transform[M, any, lopt]
	up := func(sr *schema.StreamReader[M]) *schema.StreamReader[any] {
		return schema.StreamReaderWithConvert(sr, func(m M) (any, error) { return m, nil })
	}
	if fi != nil {
		gi = func(ctx context.Context, in M, os ...lopt) (any, error) {
			o, err := fi(ctx, in, os...)
			if err != nil {
				return nil, err
			}
			return o, nil
		}
	}
	if fs != nil {
		gs = func(ctx context.Context, in M, os ...lopt) (*schema.StreamReader[any], error) {
			sr, err := fs(ctx, in, os...)
			if err != nil {
				return nil, err
			}
			return up(sr), nil
		}
	}
	if fc != nil {
		gc = func(ctx context.Context, in *schema.StreamReader[M], os ...lopt) (any, error) {
			o, err := fc(ctx, in, os...)
			if err != nil {
				return nil, err
			}
			return o, nil
		}
	}
	if ft != nil {
		gt = func(ctx context.Context, in *schema.StreamReader[M], os ...lopt) (*schema.StreamReader[any], error) {
			sr, err := ft(ctx, in, os...)
			if err != nil {
				return nil, err
			}
			return up(sr), nil
		}
	}
	l, err := compose.AnyLambda(gi, gs, gc, gt)
	if err != nil {
		panic(err)
	}
	return l
}

func (b *builder) nodeOpts(p *Plan, n *Node, full string) []compose.GraphAddNodeOpt {
	var opts []compose.GraphAddNodeOpt
	e := b.env
	opts = append(opts, compose.WithNodeName("n:"+full))
	if n.OutKey != "" {
		opts = append(opts, compose.WithOutputKey(n.OutKey))
	}
	if n.InKey != "" {
		opts = append(opts, compose.WithInputKey(n.InKey))
	}
	switch n.Pre {
	case HValue:
		opts = append(opts, compose.WithStatePreHandler(func(ctx context.Context, in M, st *St) (M, error) {
			e.HandlerLog = append(e.HandlerLog, fmt.Sprintf("%d pre %s %s", e.Seq(), tagOf(ctx), full))
			b.critical(ctx, st, "pre:"+full, b.statePathOf(full))
			if n.RerunN > 0 && st != nil {
				// a node that may ask for a re-run keeps its input in the state: the framework hands
				// the re-run a zero input and expects the pre-handler to rebuild it
				ck := tagOf(ctx) + "|" + full
				if e.abortedLast[ck] {
					e.abortedLast[ck] = false
					in = st.Saved[full]
					e.Probes["input_rebuilt_from_state"]++
				} else {
					if st.Saved == nil {
						st.Saved = map[string]map[string]any{}
					}
					st.Saved[full] = in
				}
			}
			out := clone(in)
			if out == nil {
				out = M{}
			}
			out["pre:"+n.Key] = "1"
			if p.SeenState && st != nil {
				out["seen:"+n.Key] = strconv.Itoa(st.B)
			}
			return out, nil
		}))
	case HStream:
		opts = append(opts, compose.WithStreamStatePreHandler(func(ctx context.Context, in *schema.StreamReader[M], st *St) (*schema.StreamReader[M], error) {
			e.HandlerLog = append(e.HandlerLog, fmt.Sprintf("%d pre %s %s", e.Seq(), tagOf(ctx), full))
			b.critical(ctx, st, "pre:"+full, b.statePathOf(full))
			chunk := M{"pre:" + n.Key: "1"}
			if p.SeenState && st != nil {
				chunk["seen:"+n.Key] = strconv.Itoa(st.B)
			}
			extra := schema.StreamReaderFromArray([]M{chunk})
			return schema.MergeStreamReaders([]*schema.StreamReader[M]{in, extra}), nil
		}))
	}
	switch n.Post {
	case HValue:
		opts = append(opts, compose.WithStatePostHandler(func(ctx context.Context, out M, st *St) (M, error) {
			e.HandlerLog = append(e.HandlerLog, fmt.Sprintf("%d post %s %s", e.Seq(), tagOf(ctx), full))
			b.critical(ctx, st, "post:"+full, b.statePathOf(full))
			o := clone(out)
			if o == nil {
				o = M{}
			}
			o["post:"+n.Key] = "1"
			return o, nil
		}))
	case HStream:
		opts = append(opts, compose.WithStreamStatePostHandler(func(ctx context.Context, out *schema.StreamReader[M], st *St) (*schema.StreamReader[M], error) {
			e.HandlerLog = append(e.HandlerLog, fmt.Sprintf("%d post %s %s", e.Seq(), tagOf(ctx), full))
			b.critical(ctx, st, "post:"+full, b.statePathOf(full))
			extra := schema.StreamReaderFromArray([]M{{"post:" + n.Key: "1"}})
			return schema.MergeStreamReaders([]*schema.StreamReader[M]{out, extra}), nil
		}))
	}
	return opts
}

func (b *builder) branch(p *Plan, path string, br *Branch, idx int) *compose.GraphBranch {
	e := b.env
	id := branchID(path, br.From, idx)
	ends := map[string]bool{}
	for _, t := range br.Targets {
		ends[t] = true
	}
	// failNow: the condition of a failing branch returns an error at its FailAt-th evaluation
	failNow := func(ctx context.Context) error {
		if br.FailEval > 0 && e.branchEval[tagOf(ctx)+"|"+id] == br.FailEval-1 {
			e.branchEval[tagOf(ctx)+"|"+id]++
			e.Faults["branch_condition_error"]++
			return &InjErr{Path: "branch:" + id, Idx: br.FailEval - 1}
		}
		return nil
	}
	pick := func(ctx context.Context) map[string]bool {
		k := tagOf(ctx) + "|" + id
		c := e.branchEval[k]
		e.branchEval[k] = c + 1
		c += e.ScriptOffset[tagOf(ctx)]
		sel := map[string]bool{}
		for _, t := range br.Script[c%len(br.Script)] {
			sel[t] = true
		}
		e.S.Log(fmt.Sprintf("branch %s #%d -> %v", k, c, br.Script[c%len(br.Script)]))
		return sel
	}
	first := func(m map[string]bool) string {
		for k := range m {
			return k
		}
		return ""
	}
	if br.Stream {
		readPrefix := func(sr *schema.StreamReader[M]) {
			for i := 0; i < br.Prefix; i++ {
				if _, err := sr.Recv(); err != nil {
					break
				}
			}
			sr.Close()
		}
		if br.Multi {
			return compose.NewStreamGraphMultiBranch(func(ctx context.Context, sr *schema.StreamReader[M]) (map[string]bool, error) {
				readPrefix(sr)
				if err := failNow(ctx); err != nil {
					return nil, err
				}
				return pick(ctx), nil
			}, ends)
		}
		return compose.NewStreamGraphBranch(func(ctx context.Context, sr *schema.StreamReader[M]) (string, error) {
			readPrefix(sr)
			if err := failNow(ctx); err != nil {
				return "", err
			}
			return first(pick(ctx)), nil
		}, ends)
	}
	if br.Multi {
		return compose.NewGraphMultiBranch(func(ctx context.Context, in M) (map[string]bool, error) {
			if err := failNow(ctx); err != nil {
				return nil, err
			}
			return pick(ctx), nil
		}, ends)
	}
	return compose.NewGraphBranch(func(ctx context.Context, in M) (string, error) {
		if err := failNow(ctx); err != nil {
			return "", err
		}
		return first(pick(ctx)), nil
	}, ends)
}

func (b *builder) newGraphOpts(p *Plan, path string) []compose.NewGraphOption {
	if !p.State {
		return nil
	}
	e := b.env
	return []compose.NewGraphOption{compose.WithGenLocalState(func(ctx context.Context) *St {
		st := &St{Tag: tagOf(ctx), ID: len(e.States) + 1, Roles: map[roleT]int{"user": 1, "a b\"c": 2}}
		e.States = append(e.States, st)
		e.StatePath[st] = path
		e.S.Log(fmt.Sprintf("genstate %s %s id=%d", st.Tag, path, st.ID))
		return st
	})}
}

func (b *builder) compileOpts(p *Plan) []compose.GraphCompileOption {
	var opts []compose.GraphCompileOption
	if p.Mode == ModeDAG {
		opts = append(opts, compose.WithNodeTriggerMode(compose.AllPredecessor))
	}
	if p.MaxSteps > 0 && p.Mode == ModePregel {
		opts = append(opts, compose.WithMaxRunSteps(p.MaxSteps))
	}
	if len(p.IntBefore) > 0 {
		opts = append(opts, compose.WithInterruptBeforeNodes(p.IntBefore))
	}
	if len(p.IntAfter) > 0 {
		opts = append(opts, compose.WithInterruptAfterNodes(p.IntAfter))
	}
	name := p.Name
	if name == "" {
		name = "top"
	}
	opts = append(opts, compose.WithGraphName("g:"+name))
	return opts
}

// anyGraph builds the (uncompiled) eino graph of a plan.
// graphAPI is what Graph[I, O] offers whatever I and O are.
type graphAPI interface {
	compose.AnyGraph
	AddLambdaNode(key string, node *compose.Lambda, opts ...compose.GraphAddNodeOpt) error
	AddPassthroughNode(key string, opts ...compose.GraphAddNodeOpt) error
	AddGraphNode(key string, node compose.AnyGraph, opts ...compose.GraphAddNodeOpt) error
	AddEdge(startNode, endNode string) error
	AddBranch(startNode string, branch *compose.GraphBranch) error
}

func (b *builder) anyGraph(p *Plan, path string) (compose.AnyGraph, error) {
	if p.Mode == ModeWorkflow {
		return b.workflow(p, path)
	}
	var g graphAPI = compose.NewGraph[M, M](b.newGraphOpts(p, path)...)
	if p.AnyOut && path != "" {
		g = compose.NewGraph[M, any](b.newGraphOpts(p, path)...)
	}
	for _, n := range p.Nodes {
		full := joinPath(path, n.Key)
		opts := b.nodeOpts(p, n, full)
		var err error
		switch n.Kind {
		case KLambda:
			err = g.AddLambdaNode(n.Key, b.lambda(p, n, full), opts...)
		case KPass:
			err = g.AddPassthroughNode(n.Key, opts...)
		case KSub:
			sub, e2 := b.anyGraph(n.Sub, full)
			if e2 != nil {
				return nil, e2
			}
			opts = append(opts, compose.WithGraphCompileOptions(b.compileOpts(n.Sub)...))
			err = g.AddGraphNode(n.Key, sub, opts...)
		}
		if err != nil {
			return nil, fmt.Errorf("add node %s: %w", n.Key, err)
		}
	}
	for _, e := range p.Edges {
		if err := g.AddEdge(e.From, e.To); err != nil {
			return nil, fmt.Errorf("add edge %s->%s: %w", e.From, e.To, err)
		}
	}
	cnt := map[string]int{}
	for _, br := range p.Branches {
		if err := g.AddBranch(br.From, b.branch(p, path, br, cnt[br.From])); err != nil {
			return nil, fmt.Errorf("add branch %s: %w", br.From, err)
		}
		cnt[br.From]++
	}
	return g, nil
}

// workflowAPI is what Workflow[I, O] offers whatever I and O are.
type workflowAPI interface {
	compose.AnyGraph
	AddLambdaNode(key string, lambda *compose.Lambda, opts ...compose.GraphAddNodeOpt) *compose.WorkflowNode
	AddPassthroughNode(key string, opts ...compose.GraphAddNodeOpt) *compose.WorkflowNode
	AddGraphNode(key string, graph compose.AnyGraph, opts ...compose.GraphAddNodeOpt) *compose.WorkflowNode
	End() *compose.WorkflowNode
	AddBranch(fromNodeKey string, branch *compose.GraphBranch) *compose.WorkflowBranch
}

func (b *builder) workflow(p *Plan, path string) (compose.AnyGraph, error) {
	var wf workflowAPI = compose.NewWorkflow[M, M](b.newGraphOpts(p, path)...)
	if p.AnyOut && path != "" {
		wf = compose.NewWorkflow[M, any](b.newGraphOpts(p, path)...)
	}
	nodes := map[string]*compose.WorkflowNode{}
	for _, n := range p.Nodes {
		full := joinPath(path, n.Key)
		opts := b.nodeOpts(p, n, full)
		switch n.Kind {
		case KLambda:
			nodes[n.Key] = wf.AddLambdaNode(n.Key, b.lambda(p, n, full), opts...)
		case KPass:
			nodes[n.Key] = wf.AddPassthroughNode(n.Key, opts...)
		case KSub:
			sub, err := b.anyGraph(n.Sub, full)
			if err != nil {
				return nil, err
			}
			opts = append(opts, compose.WithGraphCompileOptions(b.compileOpts(n.Sub)...))
			nodes[n.Key] = wf.AddGraphNode(n.Key, sub, opts...)
		}
	}
	nodes["end"] = wf.End()
	for _, e := range p.Edges {
		to := nodes[e.To]
		var maps []*compose.FieldMapping
		if e.Data {
			switch e.Map {
			case MapToField:
				maps = []*compose.FieldMapping{compose.ToField(e.From)}
			case MapFields:
				k := e.From
				if k == "start" {
					k = "in"
				}
				maps = []*compose.FieldMapping{compose.MapFields(k, e.From+"_v")}
			case MapNested:
				maps = []*compose.FieldMapping{compose.MapFieldPaths(compose.FieldPath{e.From, e.From}, compose.FieldPath{e.From + "_v"})}
			}
		}
		switch {
		case e.Ctrl && e.Data:
			to.AddInput(e.From, maps...)
		case e.Ctrl:
			to.AddDependency(e.From)
		default:
			to.AddInputWithOptions(e.From, maps, compose.WithNoDirectDependency())
		}
	}
	for k, v := range p.Static {
		nodes[k].SetStaticValue(compose.FieldPath{"sv"}, v)
	}
	cnt := map[string]int{}
	for _, br := range p.Branches {
		wf.AddBranch(br.From, b.branch(p, path, br, cnt[br.From]))
		cnt[br.From]++
	}
	return wf, nil
}

// Compile builds and compiles the plan into a runnable.
func (b *builder) Compile(ctx context.Context, p *Plan) (compose.Runnable[M, M], error) {
	r, err := b.compile(ctx, p)
	if err != nil && hasAnyTypes(p) {
		// the library may refuse a combination of static types at build time: the plan then runs
		// with its ordinary types
		b.env.Probes["any_types_refused_at_build"]++
		clearAnyTypes(p)
		r, err = b.compile(ctx, p)
	}
	return r, err
}

func (b *builder) compile(ctx context.Context, p *Plan) (compose.Runnable[M, M], error) {
	g, err := b.anyGraph(p, "")
	if err != nil {
		return nil, err
	}
	opts := b.compileOpts(p)
	if b.store != nil {
		opts = append(opts, compose.WithCheckPointStore(b.store))
	}
	switch x := g.(type) {
	case *compose.Graph[M, M]:
		return x.Compile(ctx, opts...)
	case *compose.Workflow[M, M]:
		return x.Compile(ctx, opts...)
	}
	return nil, fmt.Errorf("unknown graph type %T", g)
}

var _ = kernel.PolUniform
