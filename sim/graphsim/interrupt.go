package graphsim

import (
	"context"
	"errors"
	"fmt"
	"sort"
	"strings"

	"github.com/cloudwego/eino/compose"

	"verifsim/core"
	"verifsim/kernel"
)

// memStore is the durable storage of the simulation: only bytes survive a "crash".
type memStore struct {
	data      map[string][]byte
	sets      int
	gets      int
	failSetAt int // the k-th Set fails (-1: never)
	env       *Env
}

var errStore = errors.New("INJECTED<store-set-failed>")

func (m *memStore) Get(ctx context.Context, id string) ([]byte, bool, error) {
	m.gets++
	b, ok := m.data[id]
	if !ok {
		return nil, false, nil
	}
	return append([]byte(nil), b...), true, nil
}

func (m *memStore) Set(ctx context.Context, id string, b []byte) error {
	m.sets++
	if m.failSetAt >= 0 && m.sets-1 == m.failSetAt {
		m.env.Faults["store_set_error"]++
		return errStore
	}
	m.data[id] = append([]byte(nil), b...)
	return nil
}

// decorateInterrupts draws interrupt points at every nesting level.
func decorateInterrupts(t *kernel.Tape, p *Plan, rerun bool) {
	for _, n := range p.Nodes {
		if t.PlanBool(22) {
			p.IntBefore = append(p.IntBefore, n.Key)
		}
		if t.PlanBool(22) {
			p.IntAfter = append(p.IntAfter, n.Key)
		}
		// executions must happen inside the calls of the history: no lazily reading transforms
		n.Early = false
		if rerun && n.Kind == KLambda && t.PlanBool(14) {
			n.RerunN = 1 + t.Plan(2)
			n.Pre = HValue // the pre-handler that rebuilds the input from state
			n.Early = false
			p.State = true
		}
		if n.Kind == KSub {
			decorateInterrupts(t, n.Sub, rerun)
		}
	}
}

func hasInterrupts(p *Plan) bool {
	if len(p.IntBefore)+len(p.IntAfter) > 0 {
		return true
	}
	for _, n := range p.Nodes {
		if n.RerunN > 0 || (n.Kind == KSub && hasInterrupts(n.Sub)) {
			return true
		}
	}
	return false
}

func hasRerun(p *Plan) bool {
	for _, n := range p.Nodes {
		if n.RerunN > 0 || (n.Kind == KSub && hasRerun(n.Sub)) {
			return true
		}
	}
	return false
}

// callRec is what one call of an interrupted history returned.
type callRec struct {
	idx                 int
	paradigm            int
	res                 *CallResult
	info                *compose.InterruptInfo
	setsDone            int // store Set calls made during this call
	firstSeq            int
	lastSeq             int
	firstStep, lastStep int
}

func inSet(xs []string, x string) bool {
	for _, y := range xs {
		if y == x {
			return true
		}
	}
	return false
}

// runInterrupts drives one interrupted history and applies the C05 (differential) and
// C06 (monitor) oracles. only selects which property's violations are reported.
func runInterrupts(t *kernel.Tape, opt core.Opts, only string) *core.Outcome {
	o := &core.Outcome{}
	g := GenOpts{Modes: []int{ModePregel, ModeDAG, ModeWorkflow}, MaxNodes: 5, Depth: 2, Cycles: true, State: 40,
		Streams: t.PlanBool(50), Handlers: true, Yields: 1, Parallelism: t.PlanBool(40)}
	p := Generate(t, g)
	// 1 in 12 C05 histories: some outputs are statically typed any, so edges carry the framework's
	// runtime type check (reported under a class of its own, known finding)
	anyVariant := only == "C05" && t.Plan(12) == 0
	if anyVariant {
		decorateAnyTypes(t, p, 30, false)
	}
	decorateInterrupts(t, p, true)
	if only == "C05" && t.PlanBool(40) {
		decorateInputKeys(t, p, 70) // successors of nodes with an output key may read it with an input key
	}
	in := M{"in": fmt.Sprintf("x%d", t.Plan(3))}
	if t.PlanBool(40) {
		in["np"] = (*nilTok)(nil) // a typed nil pointer in an interface-typed slot
	}
	withID := !t.PlanBool(8)
	failSet := -1
	if only == "C06" && t.PlanBool(12) {
		failSet = t.Plan(3)
	}
	paradigms := make([]int, 40)
	for i := range paradigms {
		paradigms[i] = t.Plan(4)
	}
	o.Sample = p.Render() + fmt.Sprintf(" withID=%v failSet=%d paradigms=%v", withID, failSet, paradigms[:4])
	o.PlanHash = planHash(o.Sample)
	mr := RunModel(p, in) // the uninterrupted run of the same plan

	s := kernel.New(t, 120*countNodes(p))
	defer s.Close()
	s.KeepTrace = opt.KeepTrace
	env := NewEnv(s)
	store := &memStore{data: map[string][]byte{}, failSetAt: failSet, env: env}
	// the plan must compile
	if _, err := (&builder{env: env, top: p, store: store}).Compile(context.Background(), p); err != nil {
		o.Infra = "generated plan does not compile: " + err.Error() + " :: " + o.Sample
		return o
	}
	bound := 2*len(mr.Execs) + 2*countNodes(p) + 6
	var calls []*callRec
	finished := false
	noProgress := false
	// in half of the C05 histories the compiled object lives on between the calls (resume in the
	// same process); then, right after the first interrupt, another caller may start a fresh run
	// on it under its own checkpoint id: it must behave like the first call did
	reuse := only == "C05" && t.PlanBool(50)
	probeFresh := reuse && failSet < 0 && withID && t.PlanBool(60)
	var fresh *CallResult
	var freshInfo *compose.InterruptInfo
	s.Go("caller0", func() {
		var kept compose.Runnable[M, M]
		for k := 0; ; k++ {
			if k >= bound {
				noProgress = true
				return
			}
			// "restart": everything but the store's bytes is rebuilt (unless the object is kept)
			r := kept
			if r == nil {
				var err error
				r, err = (&builder{env: env, top: p, store: store}).Compile(context.Background(), p)
				if err != nil {
					env.problem("C05/recompile-failed", err.Error())
					return
				}
				if reuse {
					kept = r
				}
			}
			env.CurCall = k
			c := &Call{Tag: "r0", Paradigm: paradigms[k%len(paradigms)], In: in, InCut: k % 3, StopAfter: -1}
			if k > 0 {
				c.In = M{} // the input of a resume call is ignored
			}
			if withID {
				c.Opts = append(c.Opts, compose.WithCheckPointID("cp"))
			}
			if only == "C10" {
				c.Opts = append(c.Opts, compose.WithCallbacks(env.recordingHandler("c0", k%3)))
			}
			before := store.sets
			first, firstStep := env.Seq(), s.Step()
			res := doCall(env, r, c)
			rec := &callRec{idx: k, paradigm: c.Paradigm, res: res, setsDone: store.sets - before, firstSeq: first, lastSeq: env.Seq(), firstStep: firstStep, lastStep: s.Step()}
			if res.Err != nil {
				if info, ok := compose.ExtractInterruptInfo(res.Err); ok {
					rec.info = info
				}
			}
			calls = append(calls, rec)
			if rec.info == nil || !withID || res.Panic != nil {
				finished = true
				return
			}
			if k == 0 && probeFresh {
				env.CurCall = -7
				c2 := &Call{Tag: "r1", Paradigm: c.Paradigm, In: in, InCut: c.InCut, StopAfter: -1, Opts: []compose.Option{compose.WithCheckPointID("cp-fresh")}}
				fresh = doCall(env, r, c2)
				if fresh.Err != nil {
					if info, ok := compose.ExtractInterruptInfo(fresh.Err); ok {
						freshInfo = info
					}
				}
			}
		}
	})
	kr := s.Run(200000)
	core.FinishKernel(o, s, kr, only)
	if o.Infra != "" || kr.Budget {
		return o
	}
	viol := func(class, msg string) {
		if strings.HasPrefix(class, only+"/") {
			o.Violate(class, msg)
		} else {
			o.Stat("other_property_violation."+class, 1)
		}
	}
	stepLimited := mr.Err == ErrMaxSteps || inSet(mr.AltErr, ErrMaxSteps)
	if stepLimited {
		// the step limit counts the supersteps of one call; a resumed run starts counting again,
		// so a run that would hit the limit has no fixed outcome once it is interrupted
		o.Stat("probe.step_limited_plan_not_compared", 1)
	}
	if noProgress && !stepLimited {
		viol("C05/no-progress", fmt.Sprintf("after %d calls the run is still being interrupted (uninterrupted run: %d executions)", bound, len(mr.Execs)))
		return o
	}
	if noProgress {
		return o
	}
	if !finished {
		o.Violate(only+"/hang", "a call never returned; unfinished tasks: "+strings.Join(kr.Unfinished, ",")+"\n"+stacksOf(kr.Blocked))
		return o
	}
	last := calls[len(calls)-1]
	// known finding: a channel value that crossed an edge with a runtime type check has the
	// target's type, the checkpoint converts it between value and stream form with the source's
	anyKnown := func(msg string) bool {
		return anyVariant && hasAnyTypes(p) && len(calls) > 1 && (strings.Contains(msg, "impossible") || strings.Contains(msg, "unexpected input type") || strings.Contains(msg, "interface {}") || strings.Contains(msg, "interface is nil, not compose.streamReader"))
	}
	const anyClass = "C05/any-typed-edge-value-mistyped-after-checkpoint-round-trip"
	const anyText = "a value that crossed an edge with a runtime type check (any -> map) was converted between value and stream form by the checkpoint with the source node's type: "
	if last.res.Panic != nil {
		if anyKnown(fmt.Sprint(last.res.Panic)) {
			o.Violate(anyClass, anyText+firstLine(fmt.Sprint(last.res.Panic)))
			return o
		}
		o.Violate(only+"/panic-escaped-call", fmt.Sprint(last.res.Panic))
		return o
	}
	if last.res.Err != nil && anyKnown(last.res.Err.Error()) {
		o.Violate(anyClass, anyText+"the resumed run failed: "+firstLine(lastLines(last.res.Err.Error())))
		return o
	}
	nInt := 0
	for _, c := range calls {
		if c.info != nil {
			nInt++
		}
	}
	o.Stat("calls", len(calls))
	o.Stat("interrupts", nInt)
	storeFailed := env.Faults["store_set_error"] > 0

	// ---- C05: differential against the uninterrupted run -------------------------------
	if withID && !storeFailed && !stepLimited {
		got := errClass(last.res.Err)
		switch {
		case last.info != nil:
			// cannot happen: loop ends on non-interrupt
		case !sameErr(mr.Err, got) && !altOK(mr, got):
			viol("C05/result-differs-from-uninterrupted-run", fmt.Sprintf("uninterrupted: error class %q; interrupted %d times and resumed: %q (%v)", mr.Err, nInt, got, last.res.Err))
		case mr.Err == ErrNone && Canon(last.res.Out) != Canon(mr.Out):
			viol("C05/result-differs-from-uninterrupted-run", fmt.Sprintf("uninterrupted: %q; interrupted %d times and resumed: %q", Canon(mr.Out), nInt, Canon(last.res.Out)))
		}
		// (when the uninterrupted run fails, an interrupt may legitimately stop the history
		// before the failing step: executions are compared for runs that yield a value)
		if execsComparable(p, mr) && mr.Err == ErrNone {
			if d := diffExecs(mr.Execs, env.execsOf("r0", false)); d != "" {
				viol("C05/executions-differ-from-uninterrupted-run", fmt.Sprintf("after %d interrupts: %s", nInt, d))
			}
		}
		if mr.Err == ErrNone && p.State && !hasRerun(p) {
			// the state survived every round trip: the last state object of the lineage counts every access
			if st := env.LastState[""]; st != nil {
				total := 0
				for s2, n := range env.CritCount {
					if env.StateLineage[s2] == "" && s2.Tag != "r1" {
						total += n
					}
				}
				if len(st.Roles) != 2 || st.Roles["user"] != 1 || st.Roles["a b\"c"] != 2 {
					viol("C05/state-lost-in-round-trip", fmt.Sprintf("the state's map keyed by a named string type came back as %v", st.Roles))
				}
				if st.N != total {
					viol("C05/state-lost-in-round-trip", fmt.Sprintf("%d handler/ProcessState invocations touched the top-level state across %d calls, the final counter is %d", total, len(calls), st.N))
				}
				// nothing that completed before an interrupt runs again: the history as a whole makes
				// no more handler / ProcessState invocations than the uninterrupted run
				if execsComparable(p, mr) && total > mr.StateN[""] {
					viol("C05/state-handler-executed-again", fmt.Sprintf("the uninterrupted run makes %d handler/ProcessState invocations on the top-level state, the history with %d interrupts made %d:\n%s", mr.StateN[""], nInt, total, strings.Join(env.HandlerLog, "\n")))
				}
			}
		}
	}

	if withID && !storeFailed && !stepLimited && mr.Err == ErrNone && p.State && hasRerun(p) && execsComparable(p, mr) && last.info == nil {
		// plans with re-run requests: an aborted attempt of a top-level node repeats that node's own
		// pre-handler (and the state access of its body); nothing else may touch the state again
		total := 0
		for s2, n := range env.CritCount {
			if env.StateLineage[s2] == "" && s2.Tag != "r1" {
				total += n
			}
		}
		allowed := mr.StateN[""]
		for _, e := range env.Execs {
			if e.Tag != "r0" || !e.Aborted || strings.Contains(e.Path, "/") {
				continue
			}
			allowed++ // the pre-handler that rebuilds the input
			if n := p.node(e.Path); n != nil && n.UseState {
				allowed++
			}
		}
		if total > allowed {
			viol("C05/state-handler-executed-again", fmt.Sprintf("the uninterrupted run makes %d handler/ProcessState invocations on the top-level state and the aborted attempts of re-run nodes account for %d more; the history with %d interrupts made %d:\n%s", mr.StateN[""], allowed-mr.StateN[""], nInt, total, strings.Join(env.HandlerLog, "\n")))
		}
	}

	// ---- a fresh run on the same compiled object, started while the first one is interrupted
	if fresh != nil {
		o.Stat("probe.fresh_run_on_kept_object", 1)
		first := calls[0]
		switch {
		case fresh.Panic != nil:
			viol("C05/fresh-run-after-interrupted-run-differs", fmt.Sprintf("the fresh run panicked: %v", fresh.Panic))
		case p.Mode == ModePregel && !hasNonPregel(p):
			// lock-step execution: the two calls are the same computation (in eager execution
			// whether an interrupt-after point still stops the run depends on who finishes first)
			if (freshInfo == nil) != (first.info == nil) {
				viol("C05/fresh-run-after-interrupted-run-differs", fmt.Sprintf("the first call was interrupted (%s); a fresh run of the same input on the same compiled object returned out=%q err=%v", infoSig(first.info), Canon(fresh.Out), fresh.Err))
			} else if infoSig(freshInfo) != infoSig(first.info) {
				viol("C05/fresh-run-after-interrupted-run-differs", fmt.Sprintf("first call interrupted with %s, the fresh run with %s", infoSig(first.info), infoSig(freshInfo)))
			}
			var a, b []Exec
			for _, e := range env.Execs {
				if e.Tag == "r0" && e.Call == 0 {
					a = append(a, Exec{Path: e.Path, Input: e.Input})
				}
				if e.Tag == "r1" {
					b = append(b, Exec{Path: e.Path, Input: e.Input})
				}
			}
			if d := diffExecs(a, b); d != "" {
				viol("C05/fresh-run-after-interrupted-run-differs", "executions of the fresh run differ from those of the first call: "+d)
			}
		}
	}

	// ---- C06: interrupt points honoured and reported exactly ----------------------------
	checkC06(viol, p, "", env, calls, withID, storeFailed, o)
	for _, c := range calls {
		wrote := c.setsDone > 0
		isInt := c.info != nil
		switch {
		case !withID && wrote:
			viol("C06/checkpoint-written-without-id", fmt.Sprintf("call %d wrote a checkpoint although no checkpoint id was given", c.idx))
		case withID && isInt && !wrote:
			viol("C06/interrupt-without-checkpoint", fmt.Sprintf("call %d returned an interrupt but wrote no checkpoint", c.idx))
		case withID && !isInt && wrote && !storeFailed:
			viol("C06/checkpoint-without-interrupt", fmt.Sprintf("call %d wrote a checkpoint but returned %v", c.idx, c.res.Err))
		}
		if storeFailed && c.setsDone > 0 && isInt && c.idx == len(calls)-1 {
			viol("C06/interrupt-reported-although-store-failed", fmt.Sprintf("call %d: the store rejected the checkpoint, yet the call returned an interrupt", c.idx))
		}
	}
	if only == "C10" {
		// callbacks stay paired across interrupts: every start of a unit is followed by its
		// end / error, also when the unit is interrupted and later resumed
		for _, v := range nestingViolations(env.Callbacks.Events, []string{"c0"}) {
			o.Violate("C10/inner-unit-started-outside-its-graph", v+fmt.Sprintf(" (history with %d interrupts)", nInt))
		}
		type hk struct{ h, name string }
		open := map[hk]int{}
		for _, ev := range env.Callbacks.Events {
			k := hk{ev.Handler, ev.Name}
			if isStart(ev.Timing) {
				open[k]++
			} else {
				open[k]--
				if open[k] < 0 {
					o.Violate("C10/end-without-start", fmt.Sprintf("handler %s got %s for %s without a preceding start (history with %d interrupts)", ev.Handler, ev.Timing, ev.Name, nInt))
					open[k] = 0
				}
			}
		}
		for k, n := range open {
			if n != 0 {
				o.Violate("C10/start-without-end", fmt.Sprintf("handler %s: %d start(s) for %s never got an end/error (history with %d interrupts)", k.h, n, k.name, nInt))
			}
		}
		o.Stat("scenario.interrupt_history", 1)
	}
	foldEnvOnly(o, env, only)
	o.Stat("mode."+modeNames[p.Mode], 1)
	if nInt > 0 {
		o.Stat("probe.histories_with_interrupt", 1)
	}
	if nInt > 1 {
		o.Stat("probe.histories_with_several_interrupts", 1)
	}
	return o
}

func altOK(mr *ModelResult, got string) bool {
	for _, a := range mr.AltErr {
		if sameErr(a, got) {
			return true
		}
	}
	return false
}

func foldEnvOnly(o *core.Outcome, env *Env, only string) {
	for _, p := range env.Problems {
		if strings.HasPrefix(p.Class, only+"/") || strings.HasPrefix(p.Class, "C11/") {
			o.Violate(p.Class, p.Msg)
		}
	}
	for k, v := range env.Faults {
		o.Stat("fault."+k, v)
	}
	for k, v := range env.Probes {
		o.Stat("probe."+k, v)
	}
}

// infoAt walks the nested interrupt information down to the graph at path.
func infoAt(info *compose.InterruptInfo, path string) *compose.InterruptInfo {
	if info == nil || path == "" {
		return info
	}
	for _, k := range strings.Split(path, "/") {
		if info.SubGraphs == nil {
			return nil
		}
		info = info.SubGraphs[k]
		if info == nil {
			return nil
		}
	}
	return info
}

func successorsOf(p *Plan, k string) []string {
	var out []string
	for _, e := range p.Edges {
		if e.From == k && e.To != "end" {
			out = append(out, e.To)
		}
	}
	for _, b := range p.Branches {
		if b.From == k {
			for _, t := range b.Targets {
				if t != "end" {
					out = append(out, t)
				}
			}
		}
	}
	return out
}

// checkC06 applies the monitors to the graph at path (recursively to nested graphs).
func checkC06(viol func(string, string), p *Plan, path string, env *Env, calls []*callRec, withID, storeFailed bool, o *core.Outcome) {
	// executions of this level's nodes per call: lambdas record themselves; nested graphs are
	// observed through their first inner execution
	type span struct{ call, start, end int }
	spans := map[string][]span{}
	for _, e := range env.Execs {
		dir := strings.TrimPrefix(e.Path, path)
		if path != "" {
			if !strings.HasPrefix(e.Path, path+"/") {
				continue
			}
			dir = strings.TrimPrefix(e.Path, path+"/")
		}
		key := dir
		if i := strings.IndexByte(dir, '/'); i >= 0 {
			key = dir[:i]
		}
		sp := span{e.Call, e.Start, e.End}
		if e.Aborted {
			sp.end = 0
		}
		if key != dir {
			// an execution inside a nested graph: extend the span of the nested node in that call
			l := spans[key]
			if len(l) > 0 && l[len(l)-1].call == e.Call && l[len(l)-1].end == -1 {
				continue
			}
			spans[key] = append(l, span{e.Call, e.Start, -1})
			continue
		}
		spans[key] = append(spans[key], sp)
	}
	callInfo := func(k int) *compose.InterruptInfo {
		if k < 0 || k >= len(calls) || calls[k].info == nil {
			return nil
		}
		return infoAt(calls[k].info, path)
	}
	// (a) an interrupt-before node starts only after an interrupt that reported it, at most once per call
	for _, x := range p.IntBefore {
		perCall := map[int]int{}
		for _, sp := range spans[x] {
			perCall[sp.call]++
			prev := callInfo(sp.call - 1)
			if prev == nil || !inSet(prev.BeforeNodes, x) {
				// resumed inside a nested graph: the nested graph itself may be resumed, that is a
				// continuation of a started execution, not a new start
				if n := p.node(x); n != nil && n.Kind == KSub && prev != nil && prev.SubGraphs[x] != nil {
					continue
				}
				if prev != nil && inSet(prev.RerunNodes, x) {
					continue // the re-run of an aborted attempt continues a start that was already granted
				}
				viol("C06/interrupt-before-not-honoured", fmt.Sprintf("node %s is configured interrupt-before and started in call %d, but call %d did not return an interrupt reporting it", joinPath(path, x), sp.call, sp.call-1))
			}
		}
		for c, n := range perCall {
			if n > 1 {
				if nd := p.node(x); nd != nil && nd.Kind == KSub {
					continue
				}
				viol("C06/interrupt-before-not-honoured", fmt.Sprintf("node %s is configured interrupt-before and started %d times within call %d", joinPath(path, x), n, c))
			}
		}
		if len(spans[x]) > 0 {
			o.Stat("probe.interrupt_before_node_executed", 1)
		}
	}
	// (b) after an interrupt-after node's completion has been collected by the run loop, the
	// loop submits none of its successors in that call
	callOfStep := func(step int) int {
		for _, c := range calls {
			if step >= c.firstStep && step <= c.lastStep {
				return c.idx
			}
		}
		return -1
	}
	for _, y := range p.IntAfter {
		succ := successorsOf(p, y)
		for _, ev := range env.S.Events() {
			if ev.Site != "tm.collect" || ev.Detail != y {
				continue
			}
			failed := false
			for _, e := range env.Execs {
				if e.Call == callOfStep(ev.Step) && (e.Path == joinPath(path, y)) && (e.Aborted || e.Failed) {
					failed = true
				}
			}
			if failed {
				continue // an aborted attempt is not a completion
			}
			o.Stat("probe.interrupt_after_node_completed", 1)
			for _, ev2 := range env.S.Events() {
				if ev2.Site == "tm.submit" && ev2.Obj == ev.Obj && ev2.Step > ev.Step && inSet(succ, ev2.Detail) && callOfStep(ev2.Step) == callOfStep(ev.Step) {
					viol("C06/interrupt-after-not-honoured", fmt.Sprintf("node %s is configured interrupt-after; its completion was collected at step %d of call %d, and the run loop then submitted its successor %s (step %d) in the same call", joinPath(path, y), ev.Step, callOfStep(ev.Step), joinPath(path, ev2.Detail), ev2.Step))
				}
			}
		}
	}
	// (c) what an interrupt reports is what happened
	for k, c := range calls {
		info := callInfo(k)
		if info == nil {
			continue
		}
		for _, x := range info.BeforeNodes {
			if !inSet(p.IntBefore, x) {
				viol("C06/wrong-interrupt-info", fmt.Sprintf("call %d reports %s as interrupt-before node of graph %q, it is not configured as one", k, x, path))
			}
		}
		for _, y := range info.AfterNodes {
			// a node reported as an interrupt-after point has completed: it cannot at the same time
			// be reported as interrupted itself (asked for a re-run, or interrupted inside)
			if inSet(info.RerunNodes, y) || info.SubGraphs[y] != nil {
				viol("C06/wrong-interrupt-info", fmt.Sprintf("call %d reports node %s of graph %q both as a completed interrupt-after node and as interrupted itself (rerun=%v, nested=%v)", k, y, path, inSet(info.RerunNodes, y), info.SubGraphs[y] != nil))
			}
			if !inSet(p.IntAfter, y) {
				viol("C06/wrong-interrupt-info", fmt.Sprintf("call %d reports %s as interrupt-after node of graph %q, it is not configured as one", k, y, path))
			}
			done := false
			for _, ev := range env.S.Events() {
				if ev.Site == "tm.collect" && ev.Detail == y && callOfStep(ev.Step) == k {
					done = true
				}
			}
			if !done {
				viol("C06/wrong-interrupt-info", fmt.Sprintf("call %d reports %s as completed interrupt-after node, the run loop collected no completion of it in that call", k, y))
			}
		}
		var aborted []string
		for _, e := range env.Execs {
			if e.Call == k && e.Aborted {
				if pp, kk := splitPath(e.Path); pp == path {
					aborted = append(aborted, kk)
				}
			}
		}
		sort.Strings(aborted)
		rr := append([]string(nil), info.RerunNodes...)
		sort.Strings(rr)
		if strings.Join(aborted, ",") != strings.Join(rr, ",") {
			viol("C06/wrong-interrupt-info", fmt.Sprintf("call %d, graph %q: nodes that asked for interrupt-and-rerun: %v, reported: %v", k, path, aborted, rr))
		}
		_ = c
	}
	for _, n := range p.Nodes {
		if n.Kind == KSub {
			checkC06(viol, n.Sub, joinPath(path, n.Key), env, calls, withID, storeFailed, o)
		}
	}
}

func splitPath(full string) (string, string) {
	if i := strings.LastIndexByte(full, '/'); i >= 0 {
		return full[:i], full[i+1:]
	}
	return "", full
}

func init() {
	core.Register(&core.Profile{
		ID: "C05", Engine: "graphsim", Quick: 1500, Thorough: 40000, ThoroughSeeds: 3,
		Run:  func(t *kernel.Tape, o core.Opts) *core.Outcome { return runInterrupts(t, o, "C05") },
		Rule: "each run draws a plan in any mode, interrupt-before/after sets at every nesting level, nodes that answer InterruptAndRerun on their first 1-2 attempts (their pre-handler rebuilds the input from state), a paradigm per call, and one schedule; the history is: call with a checkpoint id, on interrupt throw the runnable away, compile the plan again, resume through a store that keeps only bytes, until the run completes; oracle: final output, multiset of non-aborted executions and the state counter equal the uninterrupted run of the same plan (reference model), bounded number of calls; 2 in 5 histories carry a typed nil pointer in an interface-typed slot of the input; nested-graph nodes have state handlers; the history may not make more handler/ProcessState invocations than the uninterrupted run; 1 in 12 histories types some outputs as any (known finding); half of the histories keep the compiled object between the calls, and after the first interrupt a fresh run under another checkpoint id is started on it (must behave like the first call; compared in full for pure Pregel plans); the state carries a map keyed by a named string type; successors of nodes with an output key may read it with an input key; in plans with re-run requests only the aborted attempts may repeat handler invocations",
		Real: append([]string{"internal/serialization (checkpoint bytes)"}, graphReal...), Stub: append([]string{"checkpoint store (in-memory byte map)"}, graphStub...),
		Faults: []string{"interrupt before", "interrupt after", "interrupt and rerun", "nested interrupt", "repeated interrupts", "restart with only durable bytes", "paradigm change across resume"},
	})
	core.Register(&core.Profile{
		ID: "C06", Engine: "graphsim", Quick: 1500, Thorough: 40000, ThoroughSeeds: 3,
		Run:  func(t *kernel.Tape, o core.Opts) *core.Outcome { return runInterrupts(t, o, "C06") },
		Rule: "the histories of C05 (plus histories without a checkpoint id and with a store whose k-th Set fails) observed by monitors: an interrupt-before node starts only in a call that resumes an interrupt reporting it, and at most once per call; after an interrupt-after node completes none of its successors starts in that call; reported before/after/rerun lists (at every nesting level) match the log; a checkpoint is written in a call exactly when the call returns an interrupt and an id was supplied",
		Real: append([]string{"internal/serialization (checkpoint bytes)"}, graphReal...), Stub: append([]string{"checkpoint store (in-memory byte map with injected Set errors)"}, graphStub...),
		Faults: []string{"interrupt before", "interrupt after", "interrupt and rerun", "nested interrupt", "store Set error", "no checkpoint id"},
	})
}

// infoSig renders what an interrupt reports (without the state).
func infoSig(i *compose.InterruptInfo) string {
	if i == nil {
		return "-"
	}
	srt := func(x []string) []string {
		y := append([]string(nil), x...)
		sort.Strings(y)
		return y
	}
	var subs []string
	for k := range i.SubGraphs {
		subs = append(subs, k)
	}
	sort.Strings(subs)
	out := fmt.Sprintf("before=%v after=%v rerun=%v", srt(i.BeforeNodes), srt(i.AfterNodes), srt(i.RerunNodes))
	for _, k := range subs {
		out += " " + k + ":{" + infoSig(i.SubGraphs[k]) + "}"
	}
	return out
}

func hasNonPregel(p *Plan) bool {
	if p.Mode != ModePregel {
		return true
	}
	for _, n := range p.Nodes {
		if n.Kind == KSub && hasNonPregel(n.Sub) {
			return true
		}
	}
	return false
}
