package graphsim

import (
	"crypto/sha256"
	"encoding/hex"
	"fmt"
	"sort"
	"strconv"
	"strings"
)

// M is the value type flowing along every edge.
type M = map[string]any

// Canon renders a value with sorted keys: the canonical, order-independent text form.
func Canon(v any) string {
	switch x := v.(type) {
	case nil:
		return ""
	case string:
		return x
	case M:
		ks := make([]string, 0, len(x))
		for k := range x {
			ks = append(ks, k)
		}
		sort.Strings(ks)
		var sb strings.Builder
		for i, k := range ks {
			if i > 0 {
				sb.WriteByte('+')
			}
			sb.WriteString(k)
			sb.WriteByte('=')
			if m, ok := x[k].(M); ok {
				sb.WriteString("{" + Canon(m) + "}")
			} else {
				sb.WriteString(Canon(x[k]))
			}
		}
		return sb.String()
	}
	return fmt.Sprintf("<%T:%v>", v, v)
}

// NodeValue is what a lambda node with this key computes from its (canonical) input:
// the provenance term. Long terms are abbreviated by a digest so that values stay small
// in cyclic graphs while still depending on the whole history.
func NodeValue(key, canonIn string) string {
	if len(canonIn) > 96 {
		h := sha256.Sum256([]byte(canonIn))
		canonIn = "#" + hex.EncodeToString(h[:6])
	}
	return key + "(" + canonIn + ")"
}

// Error classes of the model.
const (
	ErrNone       = ""
	ErrMaxSteps   = "max-steps"
	ErrNoTasks    = "no-tasks"
	ErrMerge      = "merge"
	ErrNode       = "node-failure"
	ErrEndSkip    = "end-not-reached"
	ErrMissingKey = "missing-map-key"
)

// Exec is one expected node execution.
type Exec struct {
	Path  string // node path joined by '/'
	Input string // canonical input (after pre-handler, as the body sees it)
}

func (e Exec) String() string { return e.Path + "<-" + e.Input }

// ModelResult is what the reference model predicts for one run.
type ModelResult struct {
	Out M
	Err string
	// AltErr: other error classes the run may report instead of Err (several failures in
	// one superstep: which one is reported is not fixed)
	AltErr []string
	// ErrPath: for the step-limit error, the path of the (nested) graph that hit its limit
	ErrPath string
	Execs   []Exec
	Steps   int
	// StateN is the expected final value of the state counter per stateful graph path
	// ("" for the top level): the number of handler and ProcessState invocations.
	StateN map[string]int
	// BranchFailed: the failure is that of a branch condition (no node path to name)
	BranchFailed bool
	// SubInputs records the input each nested graph execution received (path -> inputs).
	SubInputs map[string][]M
	// Unconsumed is set when some delivered value never reached a consumer (a Pregel run
	// that returns while other nodes hold pending values; a node that was skipped after a
	// data-only predecessor had delivered to it): such a run is outside C19's quantifier.
	Unconsumed bool
}

type modelRun struct {
	offset       int
	branchEval   map[string]int // branch id -> evaluations so far
	execCount    map[string]int // node path -> executions so far
	branchFailed bool           // a failing branch condition was evaluated
	bcount       map[string]int // state path -> body / post-handler updates so far
	bview        map[string]int // state path -> bcount at the start of the current superstep
	res          *ModelResult
	// FailHit is set when an injected failure was reached
	failPath string
}

// RunModel evaluates the plan on an input. Branch scripts are consumed in evaluation order.
func RunModel(p *Plan, in M) *ModelResult { return RunModelOffset(p, in, 0) }

// RunModelOffset evaluates the plan with every branch script shifted by offset entries.
func RunModelOffset(p *Plan, in M, offset int) *ModelResult {
	mr := &modelRun{offset: offset, branchEval: map[string]int{}, execCount: map[string]int{}, bcount: map[string]int{}, bview: map[string]int{}, res: &ModelResult{StateN: map[string]int{}, SubInputs: map[string][]M{}}}
	out, err := mr.run(p, "", "", in)
	mr.res.Out, mr.res.Err = out, err
	if mr.branchFailed {
		if err != ErrNone && err != ErrNode {
			mr.res.AltErr = append(mr.res.AltErr, err)
		}
		mr.res.Out, mr.res.Err = nil, ErrNode
		mr.res.BranchFailed = true
	}
	return mr.res
}

func clone(m M) M {
	if m == nil {
		return nil
	}
	c := make(M, len(m))
	for k, v := range m {
		if mm, ok := v.(M); ok {
			c[k] = clone(mm)
		} else {
			c[k] = v
		}
	}
	return c
}

func mergeVals(vs []M) (M, bool) {
	if len(vs) == 1 {
		return vs[0], true
	}
	out := M{}
	for _, v := range vs {
		for k, x := range v {
			if _, dup := out[k]; dup {
				return nil, false
			}
			out[k] = x
		}
	}
	return out, true
}

func joinPath(path, key string) string {
	if path == "" {
		return key
	}
	return path + "/" + key
}

func branchID(path, from string, idx int) string { return fmt.Sprintf("%s|%s|%d", path, from, idx) }

// selected returns the targets the idx-th branch of node from selects at its next evaluation.
func (mr *modelRun) selected(p *Plan, path string, b *Branch, idx int) []string {
	id := branchID(path, b.From, idx)
	k := mr.branchEval[id]
	mr.branchEval[id] = k + 1
	if b.FailEval > 0 && k == b.FailEval-1 {
		// the condition fails: the run fails (the model goes on only to keep its bookkeeping)
		mr.branchFailed = true
	}
	return b.Script[(k+mr.offset)%len(b.Script)]
}

// execNode models one node execution: pre-handler, body, post-handler.
// statePath is the path of the graph whose state the handlers of this node use.
func (mr *modelRun) execNode(p *Plan, path, statePath string, n *Node, in M) (M, string) {
	full := joinPath(path, n.Key)
	if n.InKey != "" {
		inner, _ := in[n.InKey].(M) // (its only data source always wraps its output in that key)
		in = inner
	}
	if n.Pre != HNone {
		in = clone(in)
		if in == nil {
			in = M{}
		}
		in["pre:"+n.Key] = "1"
		if p.SeenState {
			in["seen:"+n.Key] = strconv.Itoa(mr.bview[statePath])
		}
		mr.res.StateN[statePath]++
	}
	var out M
	switch n.Kind {
	case KPass:
		out = in
	case KLambda:
		c := Canon(in)
		name, full := n.Key, full
		if n.Twin != "" {
			// built from a Lambda value shared with another node: one function, one record
			name, full = n.Twin, joinPath(path, n.Twin)
		}
		idx := mr.execCount[full]
		mr.execCount[full] = idx + 1
		mr.res.Execs = append(mr.res.Execs, Exec{Path: full, Input: c})
		if n.UseState {
			mr.res.StateN[statePath]++
			mr.bcount[statePath]++
		}
		if n.FailAt == idx {
			mr.failPath = full
			return nil, ErrNode
		}
		out = M{name: NodeValue(name, c)}
		if n.Interim {
			out["z:"+n.Key] = 0
		}
	case KSub:
		mr.res.SubInputs[full] = append(mr.res.SubInputs[full], clone(in))
		sp := statePath
		if n.Sub.State {
			sp = full
			// every execution of a stateful nested graph starts with a fresh state
			mr.bcount[full], mr.bview[full] = 0, 0
		}
		o, err := mr.run(n.Sub, full, sp, in)
		if err != ErrNone {
			return nil, err
		}
		out = o
	}
	if n.OutKey != "" {
		out = M{n.OutKey: out}
	}
	if n.Post != HNone {
		out = clone(out)
		if out == nil {
			out = M{}
		}
		out["post:"+n.Key] = "1"
		mr.res.StateN[statePath]++
		mr.bcount[statePath]++
	}
	return out, ErrNone
}

func (mr *modelRun) run(p *Plan, path, statePath string, in M) (M, string) {
	if p.State && path == "" {
		statePath = ""
	}
	if p.Mode == ModePregel {
		return mr.runPregel(p, path, statePath, in)
	}
	return mr.runDAG(p, path, statePath, in)
}

// ---- Pregel: lock-step supersteps -------------------------------------------------

func (mr *modelRun) runPregel(p *Plan, path, statePath string, in M) (M, string) {
	chans := map[string]map[string]M{} // target -> sender -> value
	deliver := func(from string, v M) {
		sent := 0
		defer func() {
			if sent == 0 {
				mr.res.Unconsumed = true // a value nobody receives
			}
		}()
		send := func(to string) {
			sent++
			if chans[to] == nil {
				chans[to] = map[string]M{}
			}
			chans[to][from] = v
		}
		for _, e := range p.Edges {
			if e.From == from {
				send(e.To)
			}
		}
		bi := 0
		for _, b := range p.Branches {
			if b.From != from {
				continue
			}
			for _, to := range mr.selected(p, path, b, bi) {
				send(to)
			}
			bi++
		}
	}
	take := func(node string) (M, bool) {
		m := chans[node]
		delete(chans, node)
		ks := make([]string, 0, len(m))
		for k := range m {
			ks = append(ks, k)
		}
		sort.Strings(ks)
		var vs []M
		for _, k := range ks {
			vs = append(vs, m[k])
		}
		return mergeVals(vs)
	}
	max := p.MaxSteps
	if max == 0 {
		max = len(p.Nodes) + 10
	}
	if path == "" && p.RuntimeMax > 0 {
		max = p.RuntimeMax // the limit given with the call wins, whether lower or higher
	}
	deliver("start", in)
	for step := 0; ; step++ {
		if _, ok := chans["end"]; ok {
			v, ok := take("end")
			if !ok {
				return nil, ErrMerge
			}
			if len(chans) > 0 {
				mr.res.Unconsumed = true
			}
			return v, ErrNone
		}
		if step >= max {
			if mr.res.ErrPath == "" {
				mr.res.ErrPath = path
			}
			return nil, ErrMaxSteps
		}
		if len(chans) == 0 {
			return nil, ErrNoTasks
		}
		mr.res.Steps++
		if p.SeenState {
			// what the pre-handlers of this superstep see: the updates of all earlier supersteps
			mr.bview[statePath] = mr.bcount[statePath]
		}
		var ready []string
		for k := range chans {
			ready = append(ready, k)
		}
		sort.Strings(ready)
		inputs := map[string]M{}
		for _, k := range ready {
			v, ok := take(k)
			if !ok {
				return nil, ErrMerge
			}
			inputs[k] = v
		}
		outs := map[string]M{}
		failed := ""
		for _, k := range ready {
			o, err := mr.execNode(p, path, statePath, p.node(k), inputs[k])
			if err != ErrNone {
				if failed == "" {
					failed = err
				} else {
					mr.res.AltErr = append(mr.res.AltErr, err)
				}
				continue // the other nodes of the step still run
			}
			outs[k] = o
		}
		if failed != "" {
			return nil, failed
		}
		for _, k := range ready {
			deliver(k, outs[k])
		}
	}
}

// ---- AllPredecessor / Workflow: trigger and skip -----------------------------------

func (mr *modelRun) runDAG(p *Plan, path, statePath string, in M) (M, string) {
	const (
		unresolved = iota
		ran
		skipped
	)
	state := map[string]int{"start": ran}
	outv := map[string]M{"start": in}
	// routed[from][to]: control edge from->to was taken; dataTo[to][from]: data contributed
	routedCtrl := map[string]map[string]bool{}
	dataTo := map[string]map[string]M{}
	missing := false
	contribute := func(e *Edge, v M) M {
		if p.Mode != ModeWorkflow {
			return v
		}
		switch e.Map {
		case MapToField:
			return M{e.From: v}
		case MapFields:
			k := e.From
			if e.From == "start" {
				k = "in"
			}
			if _, ok := v[k]; !ok {
				missing = true
			}
			return M{e.From + "_v": v[k]}
		case MapNested:
			inner, _ := v[e.From].(M)
			if _, ok := inner[e.From]; !ok {
				missing = true
			}
			return M{e.From + "_v": inner[e.From]}
		}
		return v
	}
	resolve := func(from string) {
		// called once from has run: route control and data
		sent := 0
		defer func() {
			if sent == 0 {
				mr.res.Unconsumed = true // a value nobody receives
			}
		}()
		for _, e := range p.Edges {
			if e.From != from {
				continue
			}
			if e.Ctrl {
				if routedCtrl[from] == nil {
					routedCtrl[from] = map[string]bool{}
				}
				routedCtrl[from][e.To] = true
			}
			if e.Data {
				if dataTo[e.To] == nil {
					dataTo[e.To] = map[string]M{}
				}
				dataTo[e.To][from] = contribute(e, outv[from])
				sent++
			}
		}
		bi := 0
		sel := map[string]bool{}
		for _, b := range p.Branches {
			if b.From != from {
				continue
			}
			for _, to := range mr.selected(p, path, b, bi) {
				sel[to] = true
				if routedCtrl[from] == nil {
					routedCtrl[from] = map[string]bool{}
				}
				routedCtrl[from][to] = true
				if b.Data {
					if dataTo[to] == nil {
						dataTo[to] = map[string]M{}
					}
					dataTo[to][from] = outv[from]
					sent++
				}
			}
			bi++
		}
	}
	ctrlPreds := func(to string) []string {
		var ps []string
		for _, e := range p.Edges {
			if e.To == to && e.Ctrl {
				ps = append(ps, e.From)
			}
		}
		for _, b := range p.Branches {
			for _, x := range b.Targets {
				if x == to {
					ps = append(ps, b.From)
				}
			}
		}
		return ps
	}
	resolve("start")
	order := append(p.order(), "end")
	failed := ""
	if missing {
		return nil, ErrMissingKey
	}
	for _, k := range order {
		trig := false
		for _, c := range ctrlPreds(k) {
			if state[c] == ran && routedCtrl[c][k] {
				trig = true
			}
		}
		if !trig {
			state[k] = skipped
			if len(dataTo[k]) > 0 {
				mr.res.Unconsumed = true
			}
			continue
		}
		// input: merge of the data that was routed here (senders sorted), zero value if none
		var senders []string
		for s := range dataTo[k] {
			senders = append(senders, s)
		}
		sort.Strings(senders)
		var vs []M
		for _, s := range senders {
			vs = append(vs, dataTo[k][s])
		}
		var input M
		if len(vs) > 0 {
			m, ok := mergeVals(vs)
			if !ok {
				return nil, ErrMerge
			}
			input = m
		}
		if sv, ok := p.Static[k]; ok {
			input = clone(input)
			if input == nil {
				input = M{}
			}
			input["sv"] = sv
		}
		if k == "end" {
			if failed != "" {
				return nil, failed
			}
			return input, ErrNone
		}
		if failed != "" {
			// a failed run stops scheduling; which later nodes still ran (and possibly failed
			// too) depends on timing: the model goes on as if they all ran, only to learn the
			// alternative failures (executions of failed runs are not compared)
			o, err := mr.execNode(p, path, statePath, p.node(k), input)
			if err != ErrNone {
				mr.res.AltErr = append(mr.res.AltErr, err)
				state[k] = skipped
				continue
			}
			if p.Mode != ModeWorkflow {
				// batch execution: nodes of later steps never start once a step has failed
				state[k] = skipped
				continue
			}
			state[k] = ran
			outv[k] = o
			resolve(k)
			continue
		}
		o, err := mr.execNode(p, path, statePath, p.node(k), input)
		if err != ErrNone {
			failed = err
			state[k] = skipped
			continue
		}
		state[k] = ran
		outv[k] = o
		resolve(k)
		if missing && failed == "" {
			failed = ErrMissingKey
		}
	}
	if failed != "" {
		return nil, failed
	}
	return nil, ErrEndSkip
}

// ExecMultiset renders executions as a sorted list for multiset comparison.
func ExecMultiset(es []Exec) []string {
	var out []string
	for _, e := range es {
		out = append(out, e.String())
	}
	sort.Strings(out)
	return out
}
