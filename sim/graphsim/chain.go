package graphsim

import (
	"context"
	"fmt"
	"strings"

	"github.com/cloudwego/eino/compose"
	"github.com/cloudwego/eino/schema"

	"verifsim/core"
	"verifsim/kernel"
)

// A chain plan: a sequence of stages. The model of a chain is sequential function
// composition, with parallel stages merged by key (property C01, last sentence).
const (
	SLambda = iota
	SParallel
	SBranch
	SPass
	SSub
)

type Stage struct {
	Kind   int
	Nodes  []*Node // lambda: 1, parallel: k (output keys = node keys), branch: k alternatives
	Multi  bool
	Stream bool
	Script [][]string
	Sub    *Plan
	Key    string
}

type ChainPlan struct {
	Stages []*Stage
	Odd    bool // contains an adjacency the library is expected to refuse at build time
}

func genChain(t *kernel.Tape, g *gen) *ChainPlan {
	cp := &ChainPlan{}
	n := 1 + t.Plan(5)
	prevMulti := false // the previous stage leaves several "previous nodes": only a plain node may follow
	for i := 0; i < n; i++ {
		key := fmt.Sprintf("s%d", i)
		kind := t.Plan(5)
		if prevMulti && (kind == SParallel || kind == SBranch) {
			// several "previous nodes": the library refuses to append a parallel or a branch here.
			// Now and then the plan keeps the adjacency: the chain must either be refused or, if
			// it is accepted, behave as the sequential composition it is.
			if t.PlanBool(12) {
				cp.Odd = true
			} else {
				kind = SLambda
			}
		}
		st := &Stage{Kind: kind, Key: key}
		mk := func(k string) *Node {
			nd := &Node{Key: k, Kind: KLambda, FailAt: -1}
			g.lambda(nd)
			return nd
		}
		switch kind {
		case SLambda:
			st.Nodes = []*Node{mk(key)}
		case SParallel:
			k := 2 + t.Plan(2)
			for j := 0; j < k; j++ {
				st.Nodes = append(st.Nodes, mk(fmt.Sprintf("%sp%d", key, j)))
			}
		case SBranch:
			k := 2 + t.Plan(2)
			for j := 0; j < k; j++ {
				nd := mk(fmt.Sprintf("%sb%d", key, j))
				nd.NodeKey = t.PlanBool(35) // added with an explicit node key (WithNodeKey)
				st.Nodes = append(st.Nodes, nd)
			}
			st.Multi = t.PlanBool(35)
			st.Stream = g.o.Streams && t.PlanBool(40)
			for e := 0; e < 3; e++ {
				var sel []string
				if st.Multi {
					m := 1 + t.Plan((1<<k)-1)
					for j := 0; j < k; j++ {
						if m&(1<<j) != 0 {
							sel = append(sel, st.Nodes[j].Key)
						}
					}
				} else {
					sel = []string{st.Nodes[t.Plan(k)].Key}
				}
				st.Script = append(st.Script, sel)
			}
		case SSub:
			st.Sub = g.plan(key, key+"_", ModePregel, 1, false)
		}
		prevMulti = kind == SParallel || kind == SBranch
		cp.Stages = append(cp.Stages, st)
	}
	return cp
}

func (cp *ChainPlan) Render() string {
	var sb strings.Builder
	sb.WriteString("chain[")
	for _, st := range cp.Stages {
		switch st.Kind {
		case SLambda:
			fmt.Fprintf(&sb, "%s ", st.Key)
		case SParallel:
			fmt.Fprintf(&sb, "par(%d) ", len(st.Nodes))
		case SBranch:
			fmt.Fprintf(&sb, "branch(%d multi=%v stream=%v %v) ", len(st.Nodes), st.Multi, st.Stream, st.Script[0])
		case SPass:
			sb.WriteString("pass ")
		case SSub:
			fmt.Fprintf(&sb, "%s:%s ", st.Key, st.Sub.Render())
		}
	}
	sb.WriteString("]")
	for _, st := range cp.Stages {
		for _, n := range st.Nodes {
			nat := ""
			for i, c := range "ISCT" {
				if n.Native[i] {
					nat += string(c)
				}
			}
			fmt.Fprintf(&sb, " %s:%s", n.Key, nat)
		}
	}
	return sb.String()
}

// modelChain: sequential composition.
func modelChain(cp *ChainPlan, in M) *ModelResult {
	mr := &modelRun{branchEval: map[string]int{}, execCount: map[string]int{}, bcount: map[string]int{}, bview: map[string]int{}, res: &ModelResult{StateN: map[string]int{}, SubInputs: map[string][]M{}}}
	v := in
	for _, st := range cp.Stages {
		switch st.Kind {
		case SLambda:
			c := Canon(v)
			mr.res.Execs = append(mr.res.Execs, Exec{Path: st.Nodes[0].Key, Input: c})
			v = M{st.Nodes[0].Key: NodeValue(st.Nodes[0].Key, c)}
		case SParallel:
			c := Canon(v)
			out := M{}
			for _, n := range st.Nodes {
				mr.res.Execs = append(mr.res.Execs, Exec{Path: n.Key, Input: c})
				out[n.Key] = M{n.Key: NodeValue(n.Key, c)}
			}
			v = out
		case SBranch:
			c := Canon(v)
			out := M{}
			for _, k := range st.Script[0] {
				mr.res.Execs = append(mr.res.Execs, Exec{Path: k, Input: c})
				out[k] = NodeValue(k, c)
			}
			v = out
		case SPass:
		case SSub:
			o, err := mr.run(st.Sub, st.Key, "", v)
			if err != ErrNone {
				mr.res.Err = err
				return mr.res
			}
			v = o
		}
	}
	mr.res.Out = v
	return mr.res
}

func (b *builder) compileChain(ctx context.Context, cp *ChainPlan) (compose.Runnable[M, M], error) {
	c := compose.NewChain[M, M]()
	dummy := &Plan{}
	for _, st := range cp.Stages {
		switch st.Kind {
		case SLambda:
			n := st.Nodes[0]
			c.AppendLambda(b.lambda(dummy, n, n.Key), compose.WithNodeName("n:"+n.Key))
		case SParallel:
			p := compose.NewParallel()
			for _, n := range st.Nodes {
				p.AddLambda(n.Key, b.lambda(dummy, n, n.Key), compose.WithNodeName("n:"+n.Key))
			}
			c.AppendParallel(p)
		case SBranch:
			st := st
			pick := func(ctx context.Context) map[string]bool {
				k := tagOf(ctx) + "|chainbranch|" + st.Key
				e := b.env.branchEval[k]
				b.env.branchEval[k] = e + 1
				sel := map[string]bool{}
				for _, x := range st.Script[e%len(st.Script)] {
					sel[x] = true
				}
				return sel
			}
			first := func(m map[string]bool) string {
				for k := range m {
					return k
				}
				return ""
			}
			var br *compose.ChainBranch
			switch {
			case st.Stream && st.Multi:
				br = compose.NewStreamChainMultiBranch(func(ctx context.Context, sr *schema.StreamReader[M]) (map[string]bool, error) {
					sr.Close()
					return pick(ctx), nil
				})
			case st.Stream:
				br = compose.NewStreamChainBranch(func(ctx context.Context, sr *schema.StreamReader[M]) (string, error) {
					sr.Recv()
					sr.Close()
					return first(pick(ctx)), nil
				})
			case st.Multi:
				br = compose.NewChainMultiBranch(func(ctx context.Context, in M) (map[string]bool, error) { return pick(ctx), nil })
			default:
				br = compose.NewChainBranch(func(ctx context.Context, in M) (string, error) { return first(pick(ctx)), nil })
			}
			for _, n := range st.Nodes {
				opts := []compose.GraphAddNodeOpt{compose.WithNodeName("n:" + n.Key)}
				if n.NodeKey {
					opts = append(opts, compose.WithNodeKey("key_"+n.Key))
				}
				br.AddLambda(n.Key, b.lambda(dummy, n, n.Key), opts...)
			}
			c.AppendBranch(br)
		case SPass:
			c.AppendPassthrough()
		case SSub:
			sub, err := b.anyGraph(st.Sub, st.Key)
			if err != nil {
				return nil, err
			}
			c.AppendGraph(sub, compose.WithGraphCompileOptions(b.compileOpts(st.Sub)...))
		}
	}
	return c.Compile(ctx, compose.WithGraphName("g:top"))
}

// runChain: one chain, one call, compared with sequential composition.
func runChain(t *kernel.Tape, opt core.Opts, prefix string) *core.Outcome {
	o := &core.Outcome{}
	g := &gen{t: t, o: GenOpts{Modes: []int{ModePregel}, MaxNodes: 4, Depth: 1, Cycles: true, Streams: true, Yields: 1}}
	cp := genChain(t, g)
	in := M{"in": fmt.Sprintf("x%d", t.Plan(3))}
	call := &Call{Tag: "r0", Paradigm: t.Plan(4), In: in, InCut: t.Plan(3), InPipe: t.PlanBool(50), StopAfter: -1}
	o.Sample = cp.Render() + " call=" + paradigmNames[call.Paradigm]
	o.PlanHash = planHash(o.Sample)
	// branch scripts of a chain are evaluated once per run: only entry 0 matters for the model
	mr := modelChain(cp, in)

	s := kernel.New(t, 200)
	defer s.Close()
	s.KeepTrace = opt.KeepTrace
	env := NewEnv(s)
	b := &builder{env: env, top: &Plan{}}
	r, err := b.compileChain(context.Background(), cp)
	if err != nil {
		if cp.Odd {
			o.Stat("chain.refused_at_build", 1)
			return o
		}
		o.Infra = "generated chain does not compile: " + err.Error() + " :: " + o.Sample
		return o
	}
	var res *CallResult
	s.Go("caller0", func() { res = doCall(env, r, call) })
	kr := s.Run(40000)
	core.FinishKernel(o, s, kr, prefix)
	if o.Infra != "" || kr.Budget {
		return o
	}
	if res == nil || !res.Done {
		o.Violate(prefix+"/hang", "the call never returned; unfinished tasks: "+strings.Join(kr.Unfinished, ",")+"\n"+stacksOf(kr.Blocked))
		return o
	}
	checkAgainstModel(o, prefix+"/chain", &Plan{}, env, call, res, mr, mr.Err == ErrNone)
	foldEnv(o, env)
	o.Stat("mode.chain", 1)
	return o
}
