// Package graphsim simulates compiled eino graphs, chains and workflows under the
// deterministic kernel and compares every run with an independent reference model.
package graphsim

import (
	"fmt"
	"sort"
	"strings"

	"verifsim/kernel"
)

// Modes of a plan.
const (
	ModePregel   = iota // Graph, AnyPredecessor
	ModeDAG             // Graph, AllPredecessor
	ModeWorkflow        // Workflow (AllPredecessor, eager)
	numModes
)

var modeNames = []string{"pregel", "dag", "workflow"}

// Node kinds.
const (
	KLambda = iota
	KPass
	KSub
)

// Mapping kinds of a workflow data dependency.
const (
	MapWhole   = iota // the predecessor's whole output (at most one per node)
	MapToField        // ToField(from): whole output under key <from>
	MapFields         // MapFields(from, from+"_v"): one key of the predecessor's output
	MapNested         // MapFieldPaths({from, from}, {from+"_v"}): a nested key of a predecessor with an output key
)

// Handler kinds.
const (
	HNone = iota
	HValue
	HStream
)

// Paradigms.
const (
	PInvoke = iota
	PStream
	PCollect
	PTransform
)

var paradigmNames = []string{"invoke", "stream", "collect", "transform"}

type Node struct {
	Key      string
	Kind     int
	Sub      *Plan
	Native   [4]bool // natively implemented paradigms
	Cut      int     // chunking parameter
	Pipe     bool    // streams are produced by a producer task through a Pipe (else array readers)
	Early    bool    // transform emits a first chunk before reading its input
	Yields   int
	OutKey   string // WithOutputKey
	InKey    string // WithInputKey: the node reads this key of its input map
	Pre      int
	Post     int
	UseState bool // body calls ProcessState
	// faults (C13 / C04)
	FailAt   int // execution index at which the node fails (-1: never)
	FailKind int
	FailTag  string // if set, only the run with this tag fails
	// FailInState: a panicking node panics while it holds the state (inside ProcessState)
	FailInState bool
	// FailEOF: the error item of a mid-stream failure wraps io.EOF
	FailEOF bool
	// interrupts
	RerunN int // number of attempts that answer InterruptAndRerun
	// Twin: nodes with the same Twin name are built from ONE Lambda value (added to the graph
	// twice, with different node options); their executions are recorded under the twin name
	Twin string
	// NodeKey: chain branch alternatives: the node is added with an explicit node key
	NodeKey bool
	// Interim: the node's output carries a progress counter "z:<key>" whose final value is 0; in
	// stream form the node first emits an interim value of it (integers concatenate last-wins)
	Interim bool
	// Detach: the body does some inner work under a callback context of its own without
	// handlers (callbacks.InitCallbacks(ctx, info)): no handler of the run may see it
	Detach bool
	// AnyOut: the node's static output type is `any` (the values are the same maps): successors
	// typed map[string]any get the framework's runtime type check on the edge / before the branch
	AnyOut bool
}

type Edge struct {
	From, To   string
	Ctrl, Data bool
	Map        int
	ForBranch  bool // workflow: the data-only edge that accompanies a (control-only) branch target
}

type Branch struct {
	From    string
	Targets []string
	Multi   bool
	Stream  bool // stream condition (reads a prefix of its input)
	Prefix  int  // chunks a stream condition reads before deciding
	Data    bool // carries data (graphs) or control only (workflows)
	Script  [][]string
	// FailEval: fault, the condition returns an error at its (FailEval-1)-th evaluation (0: never)
	FailEval int
}

type Plan struct {
	Name                string // "" for the top level, the node key for nested plans
	Prefix              string // key prefix of the nodes of this plan
	Mode                int
	Nodes               []*Node
	Edges               []*Edge
	Branches            []*Branch
	State               bool
	MaxSteps            int               // 0: default
	RuntimeMax          int               // top level: step limit given with the call (0: none)
	Static              map[string]string // workflow static values: node -> value
	IntBefore, IntAfter []string
	Depth               int
	AnyOut              bool // nested plan built as Graph[map, any]
	// SeenState: the state pre-handlers of this (Pregel, stateful) plan copy into the node input
	// how many node bodies / post-handlers have updated the state so far. In lock-step execution
	// that number is fixed at the start of a superstep, whatever the nodes of the step do.
	SeenState bool
}

func (p *Plan) node(k string) *Node {
	for _, n := range p.Nodes {
		if n.Key == k {
			return n
		}
	}
	return nil
}

func (p *Plan) order() []string {
	var ks []string
	for _, n := range p.Nodes {
		ks = append(ks, n.Key)
	}
	return ks
}

// GenOpts steers the generator per property profile.
type GenOpts struct {
	Modes           []int
	MaxNodes        int
	Depth           int
	Cycles          bool
	State           int  // percent of plans with state
	Streams         bool // draw native paradigms other than invoke
	Yields          int
	Parallelism     bool // prefer wide shapes
	Handlers        bool
	AllowDupKeys    bool // do not remove fan-ins whose sources carry equal map keys
	AllowMissingKey bool // nested workflows may map a key their input lacks
	ForceLoop       bool // Pregel: guarantee a cycle that the branch scripts keep taking
	TopState        bool // the top-level plan always has state
	SeeState        bool // Pregel plans with state get SeenState (no lazily reading transforms then)
}

type gen struct {
	t *kernel.Tape
	o GenOpts
}

// Generate draws a plan.
func Generate(t *kernel.Tape, o GenOpts) *Plan {
	g := &gen{t: t, o: o}
	mode := o.Modes[t.Plan(len(o.Modes))]
	p := g.plan("", "", mode, 0, false)
	if o.SeeState {
		markSeenState(p)
	}
	return p
}

func markSeenState(p *Plan) {
	var walk func(q *Plan, f func(*Plan))
	walk = func(q *Plan, f func(*Plan)) {
		f(q)
		for _, n := range q.Nodes {
			if n.Kind == KSub {
				walk(n.Sub, f)
			}
		}
	}
	any := false
	walk(p, func(q *Plan) {
		if q.State && q.Mode == ModePregel {
			q.SeenState = true
			any = true
		}
	})
	if any {
		// a lazily reading transform runs its body (and its state access) whenever its output is
		// read, possibly supersteps later
		walk(p, func(q *Plan) {
			for _, n := range q.Nodes {
				n.Early = false
			}
		})
	}
}

func (g *gen) plan(name, prefix string, mode, depth int, stateAvail bool) *Plan {
	t := g.t
	p := &Plan{Name: name, Prefix: prefix, Mode: mode, Depth: depth, Static: map[string]string{}}
	maxN := g.o.MaxNodes
	if depth > 0 && maxN > 4 {
		maxN = 4
	}
	n := t.PlanRange(1, maxN)
	if g.o.Parallelism && n < 3 {
		n = 3
	}
	if t.PlanBool(g.o.State) || (depth == 0 && g.o.TopState) {
		p.State = true
	}
	stateAvail = stateAvail || p.State
	for i := 0; i < n; i++ {
		nd := &Node{Key: prefix + string(rune('a'+i)), FailAt: -1}
		switch {
		case depth < g.o.Depth && t.PlanBool(18):
			nd.Kind = KSub
			sm := g.o.Modes[t.Plan(len(g.o.Modes))]
			nd.Sub = g.plan(nd.Key, nd.Key+"_", sm, depth+1, stateAvail)
			if t.PlanBool(50) {
				nd.OutKey = nd.Key
			}
		case mode != ModeWorkflow && t.PlanBool(10):
			nd.Kind = KPass
		default:
			nd.Kind = KLambda
		}
		if nd.Kind == KLambda {
			g.lambda(nd)
			if mode == ModeWorkflow && t.PlanBool(15) {
				nd.OutKey = nd.Key // {key: {key: value}}: lets a successor map a nested field path
			}
		}
		if p.State && g.o.Handlers {
			// (a nested graph node takes state handlers like any other node)
			if t.PlanBool(35) {
				nd.Pre = 1 + t.Plan(2)
			}
			if t.PlanBool(35) {
				nd.Post = 1 + t.Plan(2)
			}
			if nd.Kind == KPass {
				// handlers on pass-through nodes must be typed any; keep the generator simple
				nd.Pre, nd.Post = HNone, HNone
			}
		}
		if stateAvail && nd.Kind == KLambda && t.PlanBool(50) {
			nd.UseState = true // ProcessState on the state of the nearest stateful graph
		}
		p.Nodes = append(p.Nodes, nd)
	}
	g.shape(p)
	if mode == ModePregel && t.PlanBool(40) {
		p.MaxSteps = t.PlanRange(1, 12)
	}
	return p
}

func (g *gen) lambda(nd *Node) {
	t := g.t
	nd.Native[PInvoke] = true
	if g.o.Streams {
		m := 1 + t.Plan(15) // non-empty subset of the four paradigms
		for i := 0; i < 4; i++ {
			nd.Native[i] = m&(1<<i) != 0
		}
		nd.Cut = t.Plan(5)
		nd.Pipe = t.PlanBool(60)
		nd.Early = t.PlanBool(40)
	}
	if g.o.Yields > 0 {
		nd.Yields = t.Plan(g.o.Yields + 1)
	}
}

// shape draws edges and branches. Nodes are indexed in topological order; for DAG and
// workflow plans all edges point forward; Pregel plans may get back edges.
func (g *gen) shape(p *Plan) {
	t := g.t
	n := len(p.Nodes)
	key := func(i int) string {
		if i < 0 {
			return "start"
		}
		if i >= n {
			return "end"
		}
		return p.Nodes[i].Key
	}
	type pair struct{ a, b int }
	has := map[pair]bool{}
	outs := map[int][]int{}
	addEdge := func(a, b int) bool {
		if has[pair{a, b}] || (a == -1 && b == n) {
			return false
		}
		has[pair{a, b}] = true
		outs[a] = append(outs[a], b)
		return true
	}
	// every node gets 1..2 predecessors among START and the earlier nodes
	for j := 0; j < n; j++ {
		k := 1
		if t.PlanBool(35) {
			k = 2
		}
		if g.o.Parallelism && j < 3 {
			addEdge(-1, j)
			continue
		}
		for c := 0; c < k; c++ {
			addEdge(t.Plan(j+1)-1, j)
		}
	}
	// every node gets at least one successor (a later node or END)
	for i := 0; i < n; i++ {
		if len(outs[i]) == 0 || t.PlanBool(20) {
			if i == n-1 || t.PlanBool(45) {
				addEdge(i, n)
			} else {
				addEdge(i, i+1+t.Plan(n-i-1))
			}
		}
	}
	if len(outs[n-1]) == 0 {
		addEdge(n-1, n)
	}
	// somebody must reach END
	reach := false
	for i := 0; i < n; i++ {
		for _, b := range outs[i] {
			if b == n {
				reach = true
			}
		}
	}
	if !reach {
		addEdge(n-1, n)
	}
	// Pregel: back edges
	if p.Mode == ModePregel && g.o.Cycles && t.PlanBool(45) {
		c := 1 + t.Plan(2)
		for k := 0; k < c; k++ {
			a := t.Plan(n)
			b := t.Plan(a + 1)
			addEdge(a, b)
		}
	}
	if p.Mode == ModePregel && g.o.ForceLoop && p.Depth == 0 {
		a := t.Plan(n)
		addEdge(a, a) // a static self loop: the run can only end through END or the step limit
	}
	// turn some out-edge groups into branches
	froms := []int{-1}
	for i := 0; i < n; i++ {
		froms = append(froms, i)
	}
	for _, a := range froms {
		os := outs[a]
		sort.Ints(os)
		if len(os) >= 2 && t.PlanBool(45) {
			if p.Mode == ModeWorkflow && a == -1 && len(os) == 2 {
				continue // a workflow needs a static control edge out of START
			}
			// choose a subset of >= 2 targets for one branch; the rest stay static edges
			k := 2 + t.Plan(len(os)-1)
			if p.Mode == ModeWorkflow && a == -1 && k == len(os) {
				k--
			}
			perm := append([]int(nil), os...)
			for i := len(perm) - 1; i > 0; i-- {
				j := t.Plan(i + 1)
				perm[i], perm[j] = perm[j], perm[i]
			}
			bt := perm[:k]
			sort.Ints(bt)
			br := &Branch{From: key(a), Multi: t.PlanBool(35), Data: p.Mode != ModeWorkflow}
			for _, b := range bt {
				br.Targets = append(br.Targets, key(b))
			}
			if g.o.Streams && t.PlanBool(40) {
				br.Stream = true
				br.Prefix = t.Plan(3)
			}
			for e := 0; e < 14; e++ {
				var sel []string
				if br.Multi {
					m := t.Plan(1 << len(br.Targets))
					if m == 0 && !t.PlanBool(15) {
						m = 1 + t.Plan((1<<len(br.Targets))-1)
					}
					for i, x := range br.Targets {
						if m&(1<<i) != 0 {
							sel = append(sel, x)
						}
					}
				} else {
					sel = []string{br.Targets[t.Plan(len(br.Targets))]}
				}
				br.Script = append(br.Script, sel)
			}
			p.Branches = append(p.Branches, br)
			if len(br.Targets) >= 2 && t.PlanBool(30) {
				// a second branch on the same node sharing targets with the first: a target selected
				// by one branch and dropped by the other must still run
				b2 := &Branch{From: br.From, Multi: t.PlanBool(50), Data: br.Data}
				i := t.Plan(len(br.Targets))
				j := (i + 1 + t.Plan(len(br.Targets)-1)) % len(br.Targets)
				if i > j {
					i, j = j, i
				}
				b2.Targets = []string{br.Targets[i], br.Targets[j]}
				for e := 0; e < 14; e++ {
					var sel []string
					if b2.Multi {
						m := t.Plan(4)
						for x := 0; x < 2; x++ {
							if m&(1<<x) != 0 {
								sel = append(sel, b2.Targets[x])
							}
						}
					} else {
						sel = []string{b2.Targets[t.Plan(2)]}
					}
					b2.Script = append(b2.Script, sel)
				}
				p.Branches = append(p.Branches, b2)
			}
			rest := perm[k:]
			sort.Ints(rest)
			outs[a] = rest
			if p.Mode == ModeWorkflow {
				// workflow branches carry no data: the targets take their data through
				// data-only dependencies
				for _, b := range bt {
					if t.PlanBool(35) {
						continue // a branch target that takes no data from the branching node
					}
					p.Edges = append(p.Edges, &Edge{From: key(a), To: key(b), Ctrl: false, Data: true, Map: MapToField, ForBranch: true})
				}
			}
		}
	}
	for _, a := range froms {
		for _, b := range outs[a] {
			e := &Edge{From: key(a), To: key(b), Ctrl: true, Data: true}
			if p.Mode == ModeWorkflow {
				e.Map = MapToField
				switch t.Plan(6) {
				case 0:
					e.Data = false // control-only dependency
				case 1:
					e.Ctrl = false // data-only dependency (needs another control predecessor; fixed below)
				}
			}
			p.Edges = append(p.Edges, e)
		}
	}
	if p.Mode == ModeWorkflow {
		g.fixWorkflow(p)
	}
	sort.SliceStable(p.Edges, func(i, j int) bool {
		if p.Edges[i].From != p.Edges[j].From {
			return p.Edges[i].From < p.Edges[j].From
		}
		return p.Edges[i].To < p.Edges[j].To
	})
	g.fixKeys(p)
}

// fixWorkflow enforces what the Workflow API requires: every node (and END) has at least
// one control predecessor, at least END has data, mappings are consistent.
func (g *gen) fixWorkflow(p *Plan) {
	t := g.t
	// the Workflow API wants a static control edge out of START and one into END
	startOK, endOK := false, false
	for _, e := range p.Edges {
		if e.From == "start" && e.Ctrl {
			startOK = true
		}
		if e.To == "end" && e.Ctrl {
			endOK = true
		}
	}
	if !startOK {
		for _, e := range p.Edges {
			if e.From == "start" && !e.ForBranch {
				e.Ctrl = true
				startOK = true
				break
			}
		}
	}
	if !endOK {
		for _, e := range p.Edges {
			if e.To == "end" && !e.ForBranch {
				e.Ctrl = true
				endOK = true
				break
			}
		}
	}
	if !endOK {
		// END is only reached through branches: give the last node that has no branch to END a static edge
		for i := len(p.Nodes) - 1; i >= 0 && !endOK; i-- {
			k := p.Nodes[i].Key
			viaBranch := false
			for _, b := range p.Branches {
				if b.From == k {
					for _, x := range b.Targets {
						if x == "end" {
							viaBranch = true
						}
					}
				}
			}
			if !viaBranch {
				p.Edges = append(p.Edges, &Edge{From: k, To: "end", Ctrl: true, Data: true, Map: MapToField})
				endOK = true
			}
		}
	}
	// every node must reach END along control edges (otherwise the eager run may return
	// while such a node is still pending, and whether it runs is not fixed by the property)
	for i := len(p.Nodes) - 1; i >= 0; i-- {
		k := p.Nodes[i].Key
		if controlReachesEnd(p)[k] {
			continue
		}
		fixed := false
		for _, e := range p.Edges {
			if e.From == k && !e.Ctrl && !e.ForBranch && controlReachesEnd(p)[e.To] {
				e.Ctrl = true
				fixed = true
				break
			}
		}
		if !fixed {
			p.Edges = append(p.Edges, &Edge{From: k, To: "end", Ctrl: true, Data: false})
		}
	}
	targets := append(p.order(), "end")
	for _, to := range targets {
		hasCtrl := false
		for _, b := range p.Branches {
			for _, x := range b.Targets {
				if x == to {
					hasCtrl = true
				}
			}
		}
		var ins []*Edge
		for _, e := range p.Edges {
			if e.To == to {
				ins = append(ins, e)
				if e.Ctrl {
					hasCtrl = true
				}
			}
		}
		if !hasCtrl {
			for _, e := range ins {
				if !e.Ctrl {
					e.Ctrl = true
					break
				}
			}
		}
		// mapping kinds
		nData := 0
		for _, e := range ins {
			if e.Data {
				nData++
			}
		}
		for _, e := range ins {
			if !e.Data {
				continue
			}
			src := p.node(e.From)
			// MapFields needs the key to exist in the source's output: lambdas always emit their
			// own key, the top-level input always has "in"; the input of a nested plan may lack it
			// (Invoke then fails, Stream tolerates it: kept out of these workloads, see DESIGN 10)
			simple := (e.From == "start" && (p.Depth == 0 || g.o.AllowMissingKey)) || (src != nil && src.Kind == KLambda)
			switch {
			case nData == 1 && t.PlanBool(30):
				e.Map = MapWhole
			case simple && src != nil && src.OutKey != "" && t.PlanBool(40):
				e.Map = MapNested // {key: {key: value}}: the inner value
			case simple && t.PlanBool(40):
				e.Map = MapFields
			default:
				e.Map = MapToField
			}
		}
		if to != "end" && t.PlanBool(15) {
			whole := false
			for _, e := range ins {
				if e.Data && e.Map == MapWhole {
					whole = true
				}
			}
			if !whole {
				p.Static[to] = "sv_" + to
			}
		}
	}
}

// keySets computes, for every node, the set of top-level map keys its output can carry.
func (p *Plan) keySets(startKeys map[string]bool) map[string]map[string]bool {
	ks := map[string]map[string]bool{"start": startKeys}
	for _, n := range p.Nodes {
		ks[n.Key] = map[string]bool{}
	}
	in := func(k string) map[string]bool {
		s := map[string]bool{}
		for _, e := range p.Edges {
			if e.To == k && e.Data {
				switch e.Map {
				case MapToField:
					if p.Mode == ModeWorkflow {
						s[e.From] = true
						continue
					}
					fallthrough
				case MapWhole:
					for x := range ks[e.From] {
						s[x] = true
					}
				case MapFields, MapNested:
					s[e.From+"_v"] = true
				}
			}
		}
		for _, b := range p.Branches {
			if !b.Data {
				continue
			}
			for _, x := range b.Targets {
				if x == k {
					for y := range ks[b.From] {
						s[y] = true
					}
				}
			}
		}
		return s
	}
	for changed := true; changed; {
		changed = false
		for _, n := range p.Nodes {
			var out map[string]bool
			switch {
			case n.OutKey != "":
				out = map[string]bool{n.OutKey: true}
			case n.Kind == KLambda:
				out = map[string]bool{n.Key: true}
			case n.Kind == KPass:
				out = in(n.Key)
			case n.Kind == KSub:
				out = n.Sub.endKeys(in(n.Key))
			}
			if n.Post != HNone {
				// (the post-handler adds a key of its own to whatever the node put out)
				o2 := map[string]bool{"post:" + n.Key: true}
				for x := range out {
					o2[x] = true
				}
				out = o2
			}
			for x := range out {
				if !ks[n.Key][x] {
					ks[n.Key][x] = true
					changed = true
				}
			}
		}
	}
	return ks
}

func (p *Plan) endKeys(startKeys map[string]bool) map[string]bool {
	ks := p.keySets(startKeys)
	s := map[string]bool{}
	for _, e := range p.Edges {
		if e.To == "end" && e.Data {
			switch {
			case p.Mode == ModeWorkflow && e.Map == MapToField:
				s[e.From] = true
			case e.Map == MapFields || e.Map == MapNested:
				s[e.From+"_v"] = true
			default:
				for x := range ks[e.From] {
					s[x] = true
				}
			}
		}
	}
	for _, b := range p.Branches {
		if !b.Data {
			continue
		}
		for _, x := range b.Targets {
			if x == "end" {
				for y := range ks[b.From] {
					s[y] = true
				}
			}
		}
	}
	return s
}

// fixKeys removes fan-ins whose sources could carry the same map key (the meaning of such
// a merge is not fixed by the properties): offending pass-through nodes become lambdas.
func (g *gen) fixKeys(p *Plan) {
	if p.Mode == ModeWorkflow || g.o.AllowDupKeys {
		return
	}
	for iter := 0; iter < 10; iter++ {
		ks := p.keySets(map[string]bool{"in": true, "*": true})
		bad := false
		// a nested graph must not be fed keys that its own nodes produce (a cycle leading its
		// output back to its START): inside it, START's value and a node's output would collide
		for _, n := range p.Nodes {
			if n.Kind != KSub || n.OutKey != "" {
				continue
			}
			inner := n.Sub.allKeys()
			for _, e := range p.Edges {
				if e.To == n.Key {
					for x := range ks[e.From] {
						if inner[x] {
							n.OutKey = n.Key
							bad = true
						}
					}
				}
			}
			for _, b := range p.Branches {
				for _, t := range b.Targets {
					if t == n.Key {
						for x := range ks[b.From] {
							if inner[x] {
								n.OutKey = n.Key
								bad = true
							}
						}
					}
				}
			}
		}
		if bad {
			continue
		}
		for _, to := range append(p.order(), "end") {
			var srcs []string
			for _, e := range p.Edges {
				if e.To == to && e.Data {
					srcs = append(srcs, e.From)
				}
			}
			for _, b := range p.Branches {
				for _, x := range b.Targets {
					if x == to && b.Data {
						srcs = append(srcs, b.From)
					}
				}
			}
			for i := 0; i < len(srcs); i++ {
				for j := i + 1; j < len(srcs); j++ {
					for x := range ks[srcs[i]] {
						if ks[srcs[j]][x] {
							bad = true
							for _, s := range []string{srcs[i], srcs[j]} {
								if n := p.node(s); n != nil && n.Kind == KPass {
									n.Kind = KLambda
									g.lambda(n)
								} else if n != nil && n.Kind == KSub && n.OutKey == "" {
									n.OutKey = n.Key
								}
							}
						}
					}
				}
			}
		}
		if !bad {
			return
		}
	}
}

// Render writes the plan in a compact readable form.
func (p *Plan) Render() string {
	var sb strings.Builder
	fmt.Fprintf(&sb, "%s{", modeNames[p.Mode])
	if p.State {
		sb.WriteString("state ")
	}
	if p.MaxSteps > 0 {
		fmt.Fprintf(&sb, "max=%d ", p.MaxSteps)
	}
	for _, n := range p.Nodes {
		switch n.Kind {
		case KLambda:
			nat := ""
			for i, c := range "ISCT" {
				if n.Native[i] {
					nat += string(c)
				}
			}
			fmt.Fprintf(&sb, "%s:%s", n.Key, nat)
			if n.Pipe {
				sb.WriteString("p")
			}
			if n.Yields > 0 {
				fmt.Fprintf(&sb, "y%d", n.Yields)
			}
		case KPass:
			fmt.Fprintf(&sb, "%s:pass", n.Key)
		case KSub:
			fmt.Fprintf(&sb, "%s:%s", n.Key, n.Sub.Render())
		}
		if n.OutKey != "" {
			sb.WriteString(">" + n.OutKey)
		}
		if n.InKey != "" {
			sb.WriteString("<" + n.InKey)
		}
		if n.Twin != "" {
			sb.WriteString(" =" + n.Twin)
		}
		if n.AnyOut {
			sb.WriteString(" :any")
		}
		if n.Interim {
			sb.WriteString(" z")
		}
		if n.Pre != 0 {
			fmt.Fprintf(&sb, " pre%d", n.Pre)
		}
		if n.Post != 0 {
			fmt.Fprintf(&sb, " post%d", n.Post)
		}
		if n.UseState {
			sb.WriteString(" st")
		}
		if n.FailAt >= 0 {
			fmt.Fprintf(&sb, " FAIL@%d/%d", n.FailAt, n.FailKind)
			if n.FailInState {
				sb.WriteString("/instate")
			}
			if n.FailEOF {
				sb.WriteString("/eof")
			}
		}
		if n.RerunN > 0 {
			fmt.Fprintf(&sb, " RERUN%d", n.RerunN)
		}
		sb.WriteString(" ")
	}
	if p.SeenState {
		sb.WriteString("seen ")
	}
	sb.WriteString("| ")
	for _, e := range p.Edges {
		c := "->"
		if !e.Ctrl {
			c = "~>" // data only
		} else if !e.Data {
			c = "=>" // control only
		}
		m := ""
		if p.Mode == ModeWorkflow && e.Data {
			m = []string{"*", "@", ".", ".."}[e.Map]
		}
		fmt.Fprintf(&sb, "%s%s%s%s ", e.From, c, e.To, m)
	}
	for _, b := range p.Branches {
		k := "?"
		if b.Multi {
			k = "??"
		}
		if b.Stream {
			k += fmt.Sprintf("s%d", b.Prefix)
		}
		fmt.Fprintf(&sb, "%s%s(%s)%v ", b.From, k, strings.Join(b.Targets, ","), b.Script[:3])
	}
	var sk []string
	for k := range p.Static {
		sk = append(sk, k)
	}
	sort.Strings(sk)
	for _, k := range sk {
		fmt.Fprintf(&sb, "static(%s=%s) ", k, p.Static[k])
	}
	if len(p.IntBefore) > 0 {
		fmt.Fprintf(&sb, "intBefore%v ", p.IntBefore)
	}
	if len(p.IntAfter) > 0 {
		fmt.Fprintf(&sb, "intAfter%v ", p.IntAfter)
	}
	sb.WriteString("}")
	return sb.String()
}

// allKeys: every map key a node of this plan (or of its nested plans) can produce.
func (p *Plan) allKeys() map[string]bool {
	out := map[string]bool{}
	for _, n := range p.Nodes {
		out[n.Key] = true
		if n.OutKey != "" {
			out[n.OutKey] = true
		}
		if n.Kind == KSub {
			for k := range n.Sub.allKeys() {
				out[k] = true
			}
		}
	}
	return out
}

// decorateAnyTypes gives some lambda nodes and nested (non-workflow) graphs the static output
// type `any`. The values do not change, so the reference model is unaffected. Unless
// allowFanIn is set, an any-typed output never takes part in a fan-in (the framework merges
// fan-in values by their static stream chunk type, see DESIGN.md section 10).
func decorateAnyTypes(t *kernel.Tape, p *Plan, pct int, allowFanIn bool) int {
	n := 0
	for _, nd := range p.Nodes {
		switch nd.Kind {
		case KLambda:
			if t.PlanBool(pct) && (allowFanIn || !p.feedsFanIn(nd.Key, 0)) && !p.fieldMapped(nd.Key) {
				nd.AnyOut = true
				nd.Post = HNone // (a post-handler would have to be typed any as well)
				n++
			}
		case KSub:
			n += decorateAnyTypes(t, nd.Sub, pct, allowFanIn)
			if !nd.Sub.fieldMapped2End() && (nd.Sub.Mode != ModeWorkflow || (nd.Sub.dataInDegree("end") >= 1 && len(nd.Sub.Branches) == 0)) && t.PlanBool(pct) && (allowFanIn || (!p.feedsFanIn(nd.Key, 0) && nd.Sub.dataInDegree("end") <= 1)) && !p.fieldMapped(nd.Key) {
				nd.AnyOut, nd.Sub.AnyOut = true, true
				nd.Post = HNone
				n++
			}
		}
	}
	return n
}

// fieldMapped: a workflow successor maps fields of this node's output (the library refuses
// that at build time for an output whose static type is not a struct or map).
func (p *Plan) fieldMapped(key string) bool {
	if p.Mode != ModeWorkflow {
		return false
	}
	for _, e := range p.Edges {
		if e.From == key && e.Data && e.Map != MapWhole {
			return true
		}
	}
	return false
}

// fieldMapped2End: a workflow whose END input is put together from fields (its output type
// must then be a struct or map).
func (p *Plan) fieldMapped2End() bool {
	if p.Mode != ModeWorkflow {
		return false
	}
	for _, e := range p.Edges {
		if e.To == "end" && e.Data && e.Map != MapWhole {
			return true
		}
	}
	return false
}

// dataInDegree counts the data sources of a node (edges and branch targets).
func (p *Plan) dataInDegree(target string) int {
	k := 0
	for _, e := range p.Edges {
		if e.To == target && (p.Mode != ModeWorkflow || e.Data) {
			k++
		}
	}
	for _, b := range p.Branches {
		if !b.Data {
			continue
		}
		for _, x := range b.Targets {
			if x == target {
				k++
			}
		}
	}
	return k
}

// feedsFanIn: the output of node key reaches, directly or through pass-through nodes (which
// take over its static type), a node with more than one data source.
func (p *Plan) feedsFanIn(key string, depth int) bool {
	if depth > len(p.Nodes) {
		return true
	}
	var targets []string
	for _, e := range p.Edges {
		if e.From == key && (p.Mode != ModeWorkflow || (e.Data && e.Map == MapWhole)) {
			targets = append(targets, e.To)
		}
	}
	for _, b := range p.Branches {
		if b.From == key && b.Data {
			targets = append(targets, b.Targets...)
		}
	}
	for _, x := range targets {
		if p.dataInDegree(x) > 1 {
			return true
		}
		if nd := p.node(x); nd != nil && nd.Kind == KPass && p.feedsFanIn(x, depth+1) {
			return true
		}
	}
	return false
}

func hasAnyTypes(p *Plan) bool {
	for _, nd := range p.Nodes {
		if nd.AnyOut || (nd.Kind == KSub && hasAnyTypes(nd.Sub)) {
			return true
		}
	}
	return false
}

// maybeAnyTypes: in one plan out of four some outputs are statically typed any.
func maybeAnyTypes(t *kernel.Tape, p *Plan) {
	if t.PlanBool(25) {
		decorateAnyTypes(t, p, 25, false)
	}
}

func clearAnyTypes(p *Plan) {
	p.AnyOut = false
	for _, nd := range p.Nodes {
		nd.AnyOut = false
		if nd.Kind == KSub {
			clearAnyTypes(nd.Sub)
		}
	}
}

// decorateInputKeys: a node whose only data source is a node with an output key may read
// that key with WithInputKey (it then receives the inner map).
func decorateInputKeys(t *kernel.Tape, p *Plan, pct int) int {
	k := 0
	for _, n := range p.Nodes {
		if n.Kind == KSub {
			k += decorateInputKeys(t, n.Sub, pct)
		}
		if p.Mode == ModeWorkflow || n.Kind == KPass || n.RerunN > 0 || p.dataInDegree(n.Key) != 1 {
			continue
		}
		src := ""
		for _, e := range p.Edges {
			if e.To == n.Key {
				src = e.From
			}
		}
		for _, b := range p.Branches {
			for _, x := range b.Targets {
				if x == n.Key && b.Data {
					src = b.From
				}
			}
		}
		s := p.node(src)
		if s == nil || s.OutKey == "" || s.AnyOut || s == n {
			continue
		}
		if t.PlanBool(pct) {
			n.InKey = s.OutKey
			n.Pre = HNone
			k++
		}
	}
	return k
}

// maybeInputKeys: in one plan out of four, successors of nodes with an output key read it with
// an input key.
func maybeInputKeys(t *kernel.Tape, p *Plan) {
	if t.PlanBool(25) {
		decorateInputKeys(t, p, 60)
	}
}

// decorateTwins: two lambda nodes of a (non-workflow) plan are built from one Lambda value;
// each is added under its own key and output key, with its own handlers and input key.
func decorateTwins(t *kernel.Tape, p *Plan) bool {
	if p.Mode == ModeWorkflow {
		return false
	}
	var ls []*Node
	for _, n := range p.Nodes {
		if n.Kind == KLambda && n.FailAt < 0 && n.RerunN == 0 && !n.AnyOut && !n.Interim {
			ls = append(ls, n)
		}
	}
	if len(ls) < 2 {
		return false
	}
	i := t.Plan(len(ls))
	j := t.Plan(len(ls) - 1)
	if j >= i {
		j++
	}
	a, b := ls[i], ls[j]
	name := p.Prefix + "tw"
	a.Twin, b.Twin = name, name
	// both put out the key of the shared function: they get output keys of their own unless
	// their outputs can never meet in one map
	meet := false
	ca, cb := p.consumers(a.Key, 0), p.consumers(b.Key, 0)
	for x := range ca {
		if cb[x] {
			meet = true
		}
	}
	if meet || ca[a.Key] || ca[b.Key] || cb[a.Key] || cb[b.Key] {
		a.OutKey, b.OutKey = a.Key, b.Key
	}
	b.Native, b.Cut, b.Pipe, b.Early, b.Yields, b.UseState = a.Native, a.Cut, a.Pipe, a.Early, a.Yields, a.UseState
	return true
}

// consumers: the nodes (and "end") that receive the output map of node key, directly or through
// pass-through nodes and nested graphs (which may hand the map on unchanged).
func (p *Plan) consumers(key string, depth int) map[string]bool {
	out := map[string]bool{}
	if depth > len(p.Nodes) {
		return out
	}
	var targets []string
	for _, e := range p.Edges {
		if e.From == key {
			targets = append(targets, e.To)
		}
	}
	for _, b := range p.Branches {
		if b.From == key && b.Data {
			targets = append(targets, b.Targets...)
		}
	}
	for _, x := range targets {
		out[x] = true
		if nd := p.node(x); nd != nil && (nd.Kind == KPass || nd.Kind == KSub) {
			for y := range p.consumers(x, depth+1) {
				out[y] = true
			}
		}
	}
	return out
}
