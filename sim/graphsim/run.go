package graphsim

import (
	"context"
	"crypto/sha256"
	"encoding/hex"
	"errors"
	"fmt"
	"io"
	"runtime/debug"
	"sort"
	"strings"

	"github.com/cloudwego/eino/compose"
	"github.com/cloudwego/eino/schema"

	"verifsim/core"
	"verifsim/kernel"
)

// Call is one call a caller task makes on a compiled runnable.
type Call struct {
	Tag       string
	Paradigm  int
	In        M
	InCut     int
	InPipe    bool
	StopAfter int // stream outputs: number of chunks to read before closing (-1: to the end)
	Opts      []compose.Option
	Ctx       context.Context // optional base context (cancellation)
}

// CallResult is what the caller observed.
type CallResult struct {
	Out       M
	Err       error
	NChunks   int
	Panic     any
	Done      bool
	RetSeq    int // sequence number at which the call returned (for streams: the call, not the reading)
	EndSeq    int
	Stopped   bool // the caller closed the output before its end
	StreamErr bool // the error arrived as an error item on the output stream
}

// doCall performs one call on the calling task.
func doCall(env *Env, r compose.Runnable[M, M], c *Call) (res *CallResult) {
	res = &CallResult{}
	defer func() {
		if p := recover(); p != nil {
			res.Panic = fmt.Sprintf("%v\n%s", p, trimStack(debug.Stack()))
			res.Done = true
			res.EndSeq = env.Seq()
		}
	}()
	base := c.Ctx
	if base == nil {
		base = context.Background()
	}
	ctx := WithTag(base, c.Tag)
	var inStream *schema.StreamReader[M]
	if c.Paradigm == PCollect || c.Paradigm == PTransform {
		chunks := chunksOf(c.In, c.InCut)
		if c.InPipe {
			sr, sw := schema.Pipe[M](1)
			env.prodN++
			env.S.Go(fmt.Sprintf("input:%s#%d", c.Tag, env.prodN), func() {
				defer sw.Close()
				for _, ch := range chunks {
					if sw.Send(ch, nil) {
						return
					}
				}
			})
			inStream = sr
		} else {
			inStream = schema.StreamReaderFromArray(chunks)
		}
	}
	var out M
	var err error
	var sr *schema.StreamReader[M]
	switch c.Paradigm {
	case PInvoke:
		out, err = r.Invoke(ctx, c.In, c.Opts...)
	case PCollect:
		out, err = r.Collect(ctx, inStream, c.Opts...)
	case PStream:
		sr, err = r.Stream(ctx, c.In, c.Opts...)
	case PTransform:
		sr, err = r.Transform(ctx, inStream, c.Opts...)
	}
	res.RetSeq = env.Seq()
	env.S.Log(fmt.Sprintf("call %s %s returned err=%v", c.Tag, paradigmNames[c.Paradigm], err != nil))
	if err == nil && sr != nil {
		for {
			if c.StopAfter >= 0 && res.NChunks >= c.StopAfter {
				res.Stopped = true
				break
			}
			ch, e2 := sr.Recv()
			if e2 == io.EOF {
				break
			}
			if e2 != nil {
				err = e2
				res.StreamErr = true
				break
			}
			res.NChunks++
			out = concatInto(out, ch)
		}
		sr.Close()
	}
	res.Out, res.Err = out, err
	res.Done = true
	res.EndSeq = env.Seq()
	return res
}

// errClass maps a run error to the model's error classes (by content, deliberately
// tolerant: whether it is matchable with errors.Is is C13's business).
func errClass(err error) string {
	if err == nil {
		return ErrNone
	}
	var ie *InjErr
	if errors.As(err, &ie) {
		return ErrNode
	}
	m := err.Error()
	switch {
	case errors.Is(err, compose.ErrExceedMaxSteps) || strings.Contains(m, "exceeds max steps"):
		return ErrMaxSteps
	case strings.Contains(m, "INJECTED<") || strings.Contains(m, "PANIC<"):
		return ErrNode
	case strings.Contains(m, "no tasks to execute"):
		return ErrNoTasks
	case strings.Contains(m, "duplicated key"):
		return ErrMerge
	case strings.Contains(m, "key not found in input"):
		return ErrMissingKey
	}
	return "other:" + firstLine(m)
}

func firstLine(s string) string {
	if i := strings.IndexByte(s, '\n'); i >= 0 {
		s = s[:i]
	}
	if len(s) > 200 {
		s = s[:200]
	}
	return s
}

// sameErr: the model's "end not reached" and "no tasks" are one observable class (the run
// ends with an error because nothing can run any more).
func sameErr(model, actual string) bool {
	if model == actual {
		return true
	}
	// END can never be triggered: the property only demands that the run ends with an error
	stuck := func(x string) bool { return x == ErrNoTasks || x == ErrEndSkip }
	return stuck(model) && actual != ErrNone && actual != ErrNode && actual != ErrMaxSteps
}

// execsOf returns the executions of one run tag as model-comparable records. An execution
// whose input never became known (a lazily reading transform whose output nobody consumed)
// has Input "?".
func (e *Env) execsOf(tag string, includeAborted bool) []Exec {
	var out []Exec
	for _, r := range e.Execs {
		if r.Tag != tag || (r.Aborted && !includeAborted) {
			continue
		}
		out = append(out, Exec{Path: r.Path, Input: r.Input})
	}
	return out
}

// diffExecs compares expected and observed executions: per node path the number of calls
// must be equal, and the observed inputs (where known) must be a sub-multiset of the
// expected ones.
func diffExecs(want, got []Exec) string {
	w := map[string][]string{}
	for _, x := range want {
		w[x.Path] = append(w[x.Path], x.Input)
	}
	g := map[string][]string{}
	for _, x := range got {
		g[x.Path] = append(g[x.Path], x.Input)
	}
	var probs []string
	paths := map[string]bool{}
	for k := range w {
		paths[k] = true
	}
	for k := range g {
		paths[k] = true
	}
	var ps []string
	for k := range paths {
		ps = append(ps, k)
	}
	sort.Strings(ps)
	for _, k := range ps {
		if len(w[k]) != len(g[k]) {
			probs = append(probs, fmt.Sprintf("%s: expected %d executions %v, observed %d %v", k, len(w[k]), w[k], len(g[k]), g[k]))
			continue
		}
		cnt := map[string]int{}
		for _, x := range w[k] {
			cnt[x]++
		}
		for _, x := range g[k] {
			if x == "?" {
				continue
			}
			cnt[x]--
			if cnt[x] < 0 {
				probs = append(probs, fmt.Sprintf("%s: executed on input %q, expected inputs %v", k, x, w[k]))
			}
		}
	}
	return strings.Join(probs, "; ")
}

func diffMultiset(want, got []string) string {
	cnt := map[string]int{}
	for _, w := range want {
		cnt[w]++
	}
	for _, g := range got {
		cnt[g]--
	}
	var missing, extra []string
	for k, v := range cnt {
		for ; v > 0; v-- {
			missing = append(missing, k)
		}
		for ; v < 0; v++ {
			extra = append(extra, k)
		}
	}
	sort.Strings(missing)
	sort.Strings(extra)
	if len(missing)+len(extra) == 0 {
		return ""
	}
	return fmt.Sprintf("expected but not executed: %v; executed but not expected: %v", missing, extra)
}

func planHash(s string) string {
	h := sha256.Sum256([]byte(s))
	return hex.EncodeToString(h[:8])
}

// checkAgainstModel compares one finished call with the reference model.
func checkAgainstModel(o *core.Outcome, prefix string, p *Plan, env *Env, c *Call, res *CallResult, mr *ModelResult, compareExecs bool) {
	if res.Panic != nil {
		o.Violate(prefix+"/panic-escaped-call", fmt.Sprintf("%s %s: %v", c.Tag, paradigmNames[c.Paradigm], res.Panic))
		return
	}
	got := errClass(res.Err)
	okAlt := false
	for _, a := range mr.AltErr {
		if sameErr(a, got) {
			okAlt = true
		}
	}
	if okAlt {
		return
	}
	if !sameErr(mr.Err, got) {
		o.Violate(prefix+"/result-mismatch", fmt.Sprintf("%s via %s: model says error class %q, run returned %q (%v)", c.Tag, paradigmNames[c.Paradigm], mr.Err, got, res.Err))
		return
	}
	if mr.Err == ErrNone && !res.Stopped {
		if Canon(res.Out) != Canon(mr.Out) {
			o.Violate(prefix+"/result-mismatch", fmt.Sprintf("%s via %s: model %q, run %q", c.Tag, paradigmNames[c.Paradigm], Canon(mr.Out), Canon(res.Out)))
		}
	}
	if compareExecs {
		if d := diffExecs(mr.Execs, env.execsOf(c.Tag, false)); d != "" {
			o.Violate(prefix+"/executions-mismatch", c.Tag+": "+d)
		}
	}
}

// foldEnv moves harness-side problems and counters into the outcome.
func foldEnv(o *core.Outcome, env *Env) {
	for _, p := range env.Problems {
		o.Violate(p.Class, p.Msg)
	}
	for k, v := range env.Faults {
		o.Stat("fault."+k, v)
	}
	for k, v := range env.Probes {
		o.Stat("probe."+k, v)
	}
}

// tmConservation checks, per task manager (run loop), that completions are conserved:
// every collect is preceded by its own push and hand-off, nothing is collected or handed
// off more often than it was pushed; with complete, every push was collected.
func tmConservation(o *core.Outcome, prefix string, s *kernel.Sim, complete bool) {
	type key struct {
		obj  int
		node string
	}
	push, hand, coll := map[key]int{}, map[key]int{}, map[key]int{}
	for _, ev := range s.Events() {
		k := key{ev.Obj, ev.Detail}
		switch ev.Site {
		case "tm.push":
			push[k]++
		case "tm.handoff":
			hand[k]++
			if hand[k] > push[k] {
				o.Violate(prefix+"/conservation", fmt.Sprintf("run loop %d: completion of %s handed off %d times but pushed %d times", k.obj, k.node, hand[k], push[k]))
			}
		case "tm.collect":
			coll[k]++
			if coll[k] > hand[k] {
				o.Violate(prefix+"/conservation", fmt.Sprintf("run loop %d: completion of %s collected %d times but handed off %d times", k.obj, k.node, coll[k], hand[k]))
			}
		}
	}
	if complete {
		for k, n := range push {
			if coll[k] != n {
				o.Violate(prefix+"/conservation", fmt.Sprintf("run loop %d: %s pushed %d times, collected %d times", k.obj, k.node, n, coll[k]))
			}
		}
	}
	o.Stat("tm.pushes", len(push))
}

// trimStack keeps the eino frames of a panic stack, without addresses (stable across processes).
func trimStack(b []byte) string {
	var out []string
	for _, l := range strings.Split(string(b), "\n") {
		if strings.HasPrefix(l, "github.com/cloudwego/eino/") {
			if i := strings.LastIndexByte(l, '('); i > 0 {
				l = l[:i]
			}
			out = append(out, strings.TrimPrefix(l, "github.com/cloudwego/eino/"))
		}
		if len(out) >= 8 {
			break
		}
	}
	return strings.Join(out, " < ")
}
