package graphsim

import (
	"context"
	"fmt"
	"io"

	"github.com/cloudwego/eino/callbacks"
	"github.com/cloudwego/eino/schema"
)

// CBEvent is one callback invocation seen by a recording handler.
type CBEvent struct {
	Seq     int
	Handler string
	Timing  string // start, start-stream, end, end-stream, error
	Name    string // RunInfo.Name
	Comp    string
	Tag     string
	Payload string // canonical payload ("?" if not fully read)
}

// CBLog collects callback events.
type CBLog struct {
	Events []CBEvent
}

func isStart(t string) bool { return t == "start" || t == "start-stream" }

// recordingHandler builds a handler that records every invocation. readMode decides what
// it does with stream payloads: 0 read everything, 1 read one chunk then close, 2 close at once.
func (e *Env) recordingHandler(id string, readMode int) callbacks.Handler {
	rec := func(ctx context.Context, info *callbacks.RunInfo, timing, payload string) {
		ev := CBEvent{Seq: e.Seq(), Handler: id, Timing: timing, Tag: tagOf(ctx), Payload: payload}
		if info != nil {
			ev.Name, ev.Comp = info.Name, string(info.Component)
		}
		e.Callbacks.Events = append(e.Callbacks.Events, ev)
		e.S.Log(fmt.Sprintf("cb %s %s %s %s", id, timing, ev.Tag, ev.Name))
	}
	stream := func(ctx context.Context, info *callbacks.RunInfo, timing string, sr *schema.StreamReader[any]) {
		rec(ctx, info, timing, "?")
		idx := len(e.Callbacks.Events) - 1
		e.prodN++
		name := fmt.Sprintf("cb:%s:%s#%d", id, tagOf(ctx), e.prodN)
		e.S.Go(name, func() {
			defer sr.Close()
			if readMode == 2 {
				e.Probes["handler_closed_copy_at_once"]++
				return
			}
			var acc M
			for n := 0; ; n++ {
				if readMode == 1 && n >= 1 {
					e.Probes["handler_read_prefix"]++
					return
				}
				c, err := sr.Recv()
				if err == io.EOF {
					break
				}
				if err != nil {
					e.Callbacks.Events[idx].Payload = "!err"
					return
				}
				if m, ok := c.(M); ok {
					acc = concatInto(acc, m)
				}
			}
			e.Callbacks.Events[idx].Payload = Canon(acc)
		})
	}
	canonAny := func(v any) string {
		if m, ok := v.(M); ok {
			return Canon(m)
		}
		return fmt.Sprintf("<%T>", v)
	}
	if readMode == 3 {
		// a handler that only cares about value callbacks: it declines the stream timings
		// (callbacks.TimingChecker), so no stream copy may be made for it
		return callbacks.NewHandlerBuilder().
			OnStartFn(func(ctx context.Context, info *callbacks.RunInfo, in callbacks.CallbackInput) context.Context {
				rec(ctx, info, "start", canonAny(in))
				return ctx
			}).
			OnEndFn(func(ctx context.Context, info *callbacks.RunInfo, out callbacks.CallbackOutput) context.Context {
				rec(ctx, info, "end", canonAny(out))
				return ctx
			}).Build()
	}
	return callbacks.NewHandlerBuilder().
		OnStartFn(func(ctx context.Context, info *callbacks.RunInfo, in callbacks.CallbackInput) context.Context {
			rec(ctx, info, "start", canonAny(in))
			return ctx
		}).
		OnEndFn(func(ctx context.Context, info *callbacks.RunInfo, out callbacks.CallbackOutput) context.Context {
			rec(ctx, info, "end", canonAny(out))
			return ctx
		}).
		OnErrorFn(func(ctx context.Context, info *callbacks.RunInfo, err error) context.Context {
			rec(ctx, info, "error", firstLine(err.Error()))
			return ctx
		}).
		OnStartWithStreamInputFn(func(ctx context.Context, info *callbacks.RunInfo, in *schema.StreamReader[callbacks.CallbackInput]) context.Context {
			stream(ctx, info, "start-stream", schema.StreamReaderWithConvert(in, func(c callbacks.CallbackInput) (any, error) { return c, nil }))
			return ctx
		}).
		OnEndWithStreamOutputFn(func(ctx context.Context, info *callbacks.RunInfo, out *schema.StreamReader[callbacks.CallbackOutput]) context.Context {
			stream(ctx, info, "end-stream", schema.StreamReaderWithConvert(out, func(c callbacks.CallbackOutput) (any, error) { return c, nil }))
			return ctx
		}).Build()
}

// nestingViolations: an execution unit inside a nested graph starts only while the nested
// graph's own unit is open for the same handler (a graph reports its start before anything
// inside it starts, also when it is resumed).
func nestingViolations(events []CBEvent, handlers []string) []string {
	var out []string
	for _, h := range handlers {
		open := map[string]int{}
		for _, ev := range events {
			if ev.Handler != h || len(ev.Name) < 2 || ev.Name[:2] != "n:" {
				continue
			}
			if isStart(ev.Timing) {
				if i := lastSlash(ev.Name); i > 0 && open[ev.Name[:i]] <= 0 {
					out = append(out, fmt.Sprintf("handler %s: %s started (%s) while its enclosing graph %s has no open start", h, ev.Name, ev.Timing, ev.Name[:i]))
				}
				open[ev.Name]++
			} else {
				open[ev.Name]--
			}
		}
	}
	return out
}

func lastSlash(s string) int {
	for i := len(s) - 1; i >= 0; i-- {
		if s[i] == '/' {
			return i
		}
	}
	return -1
}
