package graphsim

// CBLog collects callback events (filled in by the C10 machinery).
type CBLog struct {
	Events []CBEvent
}

type CBEvent struct {
	Seq     int
	Handler string
	Timing  string
	Name    string
	Comp    string
	Tag     string
	Payload string
}
