package graphsim

import (
	"context"
	"fmt"
	"sort"
	"strings"

	"github.com/cloudwego/eino/callbacks"
	"github.com/cloudwego/eino/compose"

	"verifsim/core"
	"verifsim/kernel"
)

// runC11: state is per run and accessed under mutual exclusion.
func runC11(t *kernel.Tape, opt core.Opts) *core.Outcome {
	o := &core.Outcome{}
	g := GenOpts{Modes: []int{ModePregel, ModeDAG, ModeWorkflow}, MaxNodes: 6, Depth: 2, Cycles: true, State: 50, TopState: true, SeeState: true,
		Streams: t.PlanBool(50), Handlers: true, Yields: 2, Parallelism: t.PlanBool(60)}
	p := Generate(t, g)
	maybeAnyTypes(t, p)
	twins := t.PlanBool(20) && decorateTwins(t, p) // two nodes built from one Lambda value
	_ = twins
	in := M{"in": fmt.Sprintf("x%d", t.Plan(3))}
	calls := []*Call{
		{Tag: "r0", Paradigm: t.Plan(4), In: in, InCut: t.Plan(3), InPipe: t.PlanBool(50), StopAfter: -1},
		{Tag: "r1", Paradigm: t.Plan(4), In: in, InCut: t.Plan(3), InPipe: t.PlanBool(50), StopAfter: -1},
	}
	o.Sample = p.Render() + fmt.Sprintf(" calls=%s,%s", paradigmNames[calls[0].Paradigm], paradigmNames[calls[1].Paradigm])
	o.PlanHash = planHash(o.Sample)
	mr := RunModel(p, in)

	s := kernel.New(t, 80*countNodes(p))
	defer s.Close()
	s.KeepTrace = opt.KeepTrace
	env := NewEnv(s)
	b := &builder{env: env, top: p}
	r, err := b.Compile(context.Background(), p)
	if err != nil {
		o.Infra = "generated plan does not compile: " + err.Error() + " :: " + o.Sample
		return o
	}
	results := make([]*CallResult, len(calls))
	s.Go("caller0", func() {
		for i, c := range calls {
			results[i] = doCall(env, r, c)
		}
	})
	kr := s.Run(80000)
	core.FinishKernel(o, s, kr, "C11")
	if o.Infra != "" || kr.Budget {
		return o
	}
	for i := range results {
		if results[i] == nil || !results[i].Done {
			o.Violate("C11/hang", fmt.Sprintf("call %d never returned; unfinished tasks: %s\n%s", i, strings.Join(kr.Unfinished, ","), stacksOf(kr.Blocked)))
			return o
		}
	}
	for i, c := range calls {
		checkAgainstModel(o, "C11", p, env, c, results[i], mr, execsComparable(p, mr))
	}
	if mr.Err == ErrNone {
		checkState(o, p, env, mr, []string{"r0", "r1"})
	}
	foldEnv(o, env)
	o.Stat("mode."+modeNames[p.Mode], 1)
	o.Stat("states_generated", len(env.States))
	o.Stat("handler_invocations", len(env.HandlerLog))
	return o
}

// checkState: fresh state per run and per stateful nested graph execution, no lost update,
// handler order around the node.
func checkState(o *core.Outcome, p *Plan, env *Env, mr *ModelResult, tags []string) {
	// expected number of state objects per path: 1 for the top level, one per execution of a stateful nested graph
	expectStates := map[string]int{}
	if p.State {
		expectStates[""] = 1
	}
	var walk func(q *Plan, path string)
	walk = func(q *Plan, path string) {
		for _, n := range q.Nodes {
			if n.Kind == KSub {
				full := joinPath(path, n.Key)
				if n.Sub.State {
					expectStates[full] = len(mr.SubInputs[full])
				}
				walk(n.Sub, full)
			}
		}
	}
	walk(p, "")
	seen := map[*St]bool{}
	for _, tag := range tags {
		gotStates := map[string]int{}
		sumN := map[string]int{}
		for _, st := range env.States {
			if st.Tag != tag {
				continue
			}
			if seen[st] {
				o.Violate("C11/state-object-reused", fmt.Sprintf("state object %d was handed out twice", st.ID))
			}
			seen[st] = true
			path := env.StatePath[st]
			gotStates[path]++
			sumN[path] += st.N
			if st.N != env.CritCount[st] {
				o.Violate("C11/lost-update", fmt.Sprintf("run %s, state of graph %q: %d handler/ProcessState invocations each added 1 to the counter, its final value is %d", tag, path, env.CritCount[st], st.N))
			}
		}
		for path, want := range expectStates {
			if gotStates[path] != want {
				o.Violate("C11/state-not-fresh", fmt.Sprintf("run %s: graph %q should have generated %d state objects, it generated %d", tag, path, want, gotStates[path]))
			}
			if sumN[path] > mr.StateN[path] && gotStates[path] == want {
				// (a lazily reading transform whose output nobody consumes never runs its body, so fewer is possible)
				o.Violate("C11/too-many-state-accesses", fmt.Sprintf("run %s: the model expects at most %d handler/ProcessState invocations on the state of graph %q, the counter is %d", tag, mr.StateN[path], path, sumN[path]))
			}
		}
	}
	// pre-handler before the node, post-handler after it
	type key struct{ tag, path string }
	pre, post := map[key][]int{}, map[key][]int{}
	for _, l := range env.HandlerLog {
		var seq int
		var kind, tag, path string
		fmt.Sscanf(l, "%d %s %s %s", &seq, &kind, &tag, &path)
		k := key{tag, path}
		if kind == "pre" {
			pre[k] = append(pre[k], seq)
		} else {
			post[k] = append(post[k], seq)
		}
	}
	idx := map[key]int{}
	lazy := map[string]bool{}
	for _, l := range lambdas(p, "") {
		lazy[l.path] = l.n.Early && l.n.Native[PTransform]
	}
	for _, e := range env.Execs {
		k := key{e.Tag, e.Path}
		i := idx[k]
		idx[k] = i + 1
		if i < len(pre[k]) && pre[k][i] > e.Start {
			o.Violate("C11/pre-handler-after-node", fmt.Sprintf("%s: execution %d started at %d, its pre-handler ran at %d", e.Path, i, e.Start, pre[k][i]))
		}
		if i < len(post[k]) {
			if post[k][i] < e.Start || (!lazy[e.Path] && e.End != 0 && post[k][i] < e.End) {
				o.Violate("C11/post-handler-before-node", fmt.Sprintf("%s: execution %d ran %d..%d, its post-handler ran at %d", e.Path, i, e.Start, e.End, post[k][i]))
			}
		}
	}
}

// runC10: callback handlers fire exactly once per execution unit, paired, for the right node.
func runC10(t *kernel.Tape, opt core.Opts) *core.Outcome {
	if t.Plan(5) == 0 {
		return runInterrupts(t, opt, "C10") // callbacks across interrupt and resume
	}
	o := &core.Outcome{}
	g := GenOpts{Modes: []int{ModePregel, ModeDAG, ModeWorkflow}, MaxNodes: 6, Depth: 2, Cycles: true, State: 20,
		Streams: t.PlanBool(60), Handlers: true, Yields: 2, Parallelism: t.PlanBool(60)}
	p := Generate(t, g)
	maybeAnyTypes(t, p)
	var faults []lnode
	if t.PlanBool(15) {
		faults = injectFaults(t, p, []int{0, 1}, false)
	} else if t.PlanBool(8) {
		injectBranchFault(t, p) // a branch condition that returns an error
	}
	// some node bodies do inner work under a handler-less callback context of their own
	for _, l := range lambdas(p, "") {
		if t.PlanBool(12) {
			l.n.Detach = true
		}
	}
	in := M{"in": fmt.Sprintf("x%d", t.Plan(3))}
	call := &Call{Tag: "r0", Paradigm: t.Plan(4), In: in, InCut: t.Plan(3), InPipe: t.PlanBool(50), StopAfter: -1}
	// handler supply
	useGlobal := t.PlanBool(40)
	nCall := t.Plan(4) // 0..3 graph-level handlers, each in its own option
	ls := lambdas(p, "")
	type desig struct {
		id   string
		path []string
		name string
	}
	var ds []desig
	nd := t.Plan(4)
	for i := 0; i < nd && len(ls) > 0; i++ {
		l := ls[t.Plan(len(ls))]
		dup := false
		for _, d := range ds {
			if d.name == "n:"+l.path {
				dup = true
			}
		}
		if dup {
			continue
		}
		ds = append(ds, desig{id: "d:" + l.path, path: strings.Split(l.path, "/"), name: "n:" + l.path})
	}
	// one option that designates several targets at once (nested paths and top-level keys mixed
	// in a drawn order)
	type mdesig struct {
		id    string
		paths [][]string
		names []string
	}
	var ms []mdesig
	if len(ls) >= 2 && t.PlanBool(35) {
		m := mdesig{id: "m:0"}
		k := 2 + t.Plan(2)
		// (the nodes that also have a handler of their own come first: two options then designate
		// the same node)
		for _, d := range ds {
			m.names = append(m.names, d.name)
			m.paths = append(m.paths, d.path)
		}
		for i := 0; i < k; i++ {
			l := ls[t.Plan(len(ls))]
			if !inSet(m.names, "n:"+l.path) {
				m.names = append(m.names, "n:"+l.path)
				m.paths = append(m.paths, strings.Split(l.path, "/"))
			}
		}
		ms = append(ms, m)
	}
	o.Sample = p.Render() + fmt.Sprintf(" call=%s global=%v callHandlers=%d designated=%d", paradigmNames[call.Paradigm], useGlobal, nCall, len(ds))
	for _, m := range ms {
		o.Sample += fmt.Sprintf(" multi=%v", m.names)
	}
	o.PlanHash = planHash(o.Sample)
	mr := RunModel(p, in)

	s := kernel.New(t, 80*countNodes(p))
	defer s.Close()
	s.KeepTrace = opt.KeepTrace
	env := NewEnv(s)
	b := &builder{env: env, top: p}
	r, err := b.Compile(context.Background(), p)
	if err != nil {
		o.Infra = "generated plan does not compile: " + err.Error() + " :: " + o.Sample
		return o
	}
	handlerIDs := []string{}
	if useGlobal {
		callbacks.InitCallbackHandlers([]callbacks.Handler{env.recordingHandler("G", t.Plan(3))})
		defer callbacks.InitCallbackHandlers(nil)
		handlerIDs = append(handlerIDs, "G")
	}
	// handler slices are built the way applications build them: with spare capacity (the
	// framework must not append into a caller's slice)
	withCB := func(h callbacks.Handler) compose.Option {
		hs := make([]callbacks.Handler, 1, 4)
		hs[0] = h
		return compose.WithCallbacks(hs...)
	}
	var optsCall, optsD, optsM []compose.Option
	for i := 0; i < nCall; i++ {
		id := fmt.Sprintf("c%d", i)
		optsCall = append(optsCall, withCB(env.recordingHandler(id, t.Plan(3))))
		handlerIDs = append(handlerIDs, id)
	}
	for _, d := range ds {
		h := env.recordingHandler(d.id, t.Plan(3))
		if len(d.path) == 1 {
			optsD = append(optsD, withCB(h).DesignateNode(d.path[0]))
		} else {
			optsD = append(optsD, withCB(h).DesignateNodeWithPath(compose.NewNodePath(d.path...)))
		}
	}
	for _, m := range ms {
		h := env.recordingHandler(m.id, t.Plan(3))
		var nps []*compose.NodePath
		for _, pth := range m.paths {
			nps = append(nps, compose.NewNodePath(pth...))
		}
		optsM = append(optsM, withCB(h).DesignateNodeWithPath(nps...))
	}
	// the order in which the options are passed is drawn
	groups := [][]compose.Option{optsCall, optsD, optsM}
	for i := 2; i > 0; i-- {
		j := t.Plan(i + 1)
		groups[i], groups[j] = groups[j], groups[i]
	}
	for _, g := range groups {
		call.Opts = append(call.Opts, g...)
	}
	var res *CallResult
	s.Go("caller0", func() { res = doCall(env, r, call) })
	kr := s.Run(80000)
	core.FinishKernel(o, s, kr, "C10")
	if o.Infra != "" || kr.Budget {
		return o
	}
	if res == nil || !res.Done {
		o.Violate("C10/hang", "the call never returned; unfinished tasks: "+strings.Join(kr.Unfinished, ",")+"\n"+stacksOf(kr.Blocked))
		return o
	}
	// the data flowing through the graph is not disturbed by what handlers do with their copies
	checkAgainstModel(o, "C10", p, env, call, res, mr, execsComparable(p, mr))

	// expected units: the graph, every lambda execution, every nested graph execution
	exact := execsComparable(p, mr) && mr.Err == ErrNone
	expect := map[string]int{"g:top": 1}
	for _, e := range mr.Execs {
		expect["n:"+e.Path]++
	}
	for path, ins := range mr.SubInputs {
		expect["n:"+path] += len(ins)
	}
	type hk struct{ h, name string }
	starts, ends := map[hk]int{}, map[hk]int{}
	open := map[hk]int{}
	for _, ev := range env.Callbacks.Events {
		k := hk{ev.Handler, ev.Name}
		if isStart(ev.Timing) {
			starts[k]++
			open[k]++
		} else {
			ends[k]++
			open[k]--
			if open[k] < 0 {
				o.Violate("C10/end-without-start", fmt.Sprintf("handler %s got %s for %s without a preceding start", ev.Handler, ev.Timing, ev.Name))
				open[k] = 0
			}
		}
		if strings.HasPrefix(ev.Handler, "d:") && ev.Name != "n:"+ev.Handler[2:] {
			o.Violate("C10/designated-handler-fired-for-other-node", fmt.Sprintf("the handler designated to %s was invoked (%s) for %s", ev.Handler[2:], ev.Timing, ev.Name))
		}
		for _, m := range ms {
			if ev.Handler == m.id && !inSet(m.names, ev.Name) {
				o.Violate("C10/designated-handler-fired-for-other-node", fmt.Sprintf("the handler designated to %v was invoked (%s) for %s", m.names, ev.Timing, ev.Name))
			}
		}
		if strings.HasPrefix(ev.Name, "inner:") && ev.Handler != "G" {
			o.Violate("C10/handler-fired-for-detached-work", fmt.Sprintf("handler %s was invoked (%s) for %s, work a node body does under a callback context of its own without handlers", ev.Handler, ev.Timing, ev.Name))
		}
		if ev.Tag != "r0" {
			o.Violate("C10/foreign-context", fmt.Sprintf("handler %s invoked with the context of %q", ev.Handler, ev.Tag))
		}
	}
	if mr.Err == ErrNone && len(mr.AltErr) == 0 {
		// (a failed eager run may report its error while nodes it had already started still run)
		for _, v := range nestingViolations(env.Callbacks.Events, handlerIDs) {
			o.Violate("C10/inner-unit-started-outside-its-graph", v)
		}
	}
	// the run as a whole is one execution unit: one start and one end (or error), whatever
	// happens inside and however early the run fails
	for _, h := range handlerIDs {
		k := hk{h, "g:top"}
		if starts[k] != 1 || ends[k] != 1 {
			o.Violate("C10/wrong-callback-count", fmt.Sprintf("handler %s: the run (model outcome %q) produced %d start and %d end callbacks for the graph itself", h, mr.Err, starts[k], ends[k]))
		}
	}
	for k, n := range open {
		if n != 0 && (mr.Err == ErrNone) {
			o.Violate("C10/start-without-end", fmt.Sprintf("handler %s: %d start(s) for %s never got an end/error", k.h, n, k.name))
		}
	}
	if exact {
		var names []string
		for n := range expect {
			names = append(names, n)
		}
		sort.Strings(names)
		check := func(h string, units []string) {
			for _, n := range units {
				k := hk{h, n}
				if starts[k] != expect[n] || ends[k] != expect[n] {
					o.Violate("C10/wrong-callback-count", fmt.Sprintf("handler %s, unit %s: %d execution(s), %d start and %d end callbacks", h, n, expect[n], starts[k], ends[k]))
				}
			}
		}
		for _, h := range handlerIDs {
			check(h, names)
		}
		for _, d := range ds {
			check(d.id, []string{d.name})
		}
		for _, m := range ms {
			check(m.id, m.names)
		}
		for k, n := range starts {
			if expect[k.name] == 0 && !strings.HasPrefix(k.name, "n:") && k.name != "g:top" && n > 0 {
				o.Stat("probe.unnamed_units", 1)
			}
		}
		// payloads: what a handler saw at the start of a lambda execution is the input of an execution of that node
		inputs := map[string]map[string]bool{}
		for _, e := range mr.Execs {
			if inputs["n:"+e.Path] == nil {
				inputs["n:"+e.Path] = map[string]bool{}
			}
			inputs["n:"+e.Path][e.Input] = true
		}
		for _, ev := range env.Callbacks.Events {
			if isStart(ev.Timing) && ev.Payload != "?" && inputs[ev.Name] != nil && !inputs[ev.Name][ev.Payload] {
				o.Violate("C10/wrong-payload", fmt.Sprintf("handler %s saw input %q at the start of %s; the node's inputs are %v", ev.Handler, ev.Payload, ev.Name, inputs[ev.Name]))
			}
		}
	}
	_ = faults
	foldEnv(o, env)
	o.Stat("callback_events", len(env.Callbacks.Events))
	o.Stat("handlers", len(handlerIDs)+len(ds))
	o.Stat("mode."+modeNames[p.Mode], 1)
	return o
}

func init() {
	core.Register(&core.Profile{
		RaceQuick: 200, RaceThorough: 3000, ID: "C11", Engine: "graphsim", Quick: 2000, Thorough: 50000, ThoroughSeeds: 3, Run: runC11,
		Rule: "each run draws a stateful plan (all modes; value and stream pre/post handlers; node bodies calling ProcessState, also from stateless nested graphs; stateful nested graphs), every state access does read-yield-write inside the framework's lock and passes a mutual-exclusion monitor; two calls on the same compiled object; oracle: monitor never sees two tasks inside, final counter = number of invocations, one fresh state per run and per stateful nested execution, pre < node < post, values equal the reference model; Pregel plans: pre-handlers copy into the node input how many body/post-handler updates the state has seen (must equal the count at the start of the superstep); 1 plan in 5 builds two lambda nodes from one Lambda value (own handlers each)",
		Real: graphReal, Stub: graphStub,
		Faults: []string{"handlers and ProcessState bodies yielding inside the lock", "parallel nodes", "schedule perturbation"},
	})
	core.Register(&core.Profile{
		RaceQuick: 200, RaceThorough: 3000, ID: "C10", Engine: "graphsim", Quick: 2000, Thorough: 50000, ThoroughSeeds: 3, Run: runC10,
		Rule: "each run draws a plan (all modes, nested graphs, parallel nodes), a handler supply (global handler, 0-3 graph-level handlers each in its own call option, 0-3 handlers designated to nodes or node paths), per handler what it does with stream payloads (read all, read one chunk, close at once), optionally a failing node; oracle: per handler and execution unit exactly one start-type and one end-type callback, start first, the unit's RunInfo, designated handlers only for their node, start payload = an input of that node, graph data equal to the model; handler options are built from caller slices with spare capacity and passed in a drawn order; one option may designate several targets (nested paths and top-level keys mixed) including nodes that have a handler of their own; faults: a failing node or a branch condition that returns an error; the graph itself gets exactly one start and one end callback whatever happens; some node bodies do inner work under a handler-less callback context of their own, which no handler of the run may see; a unit inside a nested graph starts only while the nested graph's own unit is open",
		Real: graphReal, Stub: append([]string{"callback handlers (recording stubs; stream payloads read by handler tasks)"}, graphStub...),
		Faults: []string{"handlers closing or partially reading their stream copies", "parallel nodes", "node error/panic"},
	})
}
