package graphsim

import (
	"context"
	"fmt"
	"strings"

	"github.com/cloudwego/eino/callbacks"
	"github.com/cloudwego/eino/compose"

	"verifsim/core"
	"verifsim/kernel"
)

// runC19: a finished streaming run leaves no blocked producer or goroutine behind.
func runC19(t *kernel.Tape, opt core.Opts) *core.Outcome {
	o := &core.Outcome{}
	g := GenOpts{Modes: []int{ModeDAG, ModeWorkflow, ModePregel}, MaxNodes: 6, Depth: 2, Cycles: t.PlanBool(50), State: 25,
		Streams: true, Handlers: true, Yields: 1, Parallelism: t.PlanBool(40)}
	p := Generate(t, g)
	maybeAnyTypes(t, p)
	maybeInputKeys(t, p)
	in := M{"in": fmt.Sprintf("x%d", t.Plan(3))}
	par := PStream
	if t.PlanBool(40) {
		par = PTransform
	}
	stop := -1
	if t.PlanBool(50) {
		stop = t.Plan(4)
	}
	call := &Call{Tag: "r0", Paradigm: par, In: in, InCut: t.Plan(4), InPipe: t.PlanBool(60), StopAfter: stop}
	nHandlers := t.Plan(3)
	modes := []int{t.Plan(4), t.Plan(4)} // 3: a handler that declines the stream timings
	o.Sample = p.Render() + fmt.Sprintf(" call=%s stopAfter=%d handlers=%d%v", paradigmNames[par], stop, nHandlers, modes[:nHandlers])
	o.PlanHash = planHash(o.Sample)
	mr := RunModel(p, in)

	s := kernel.New(t, 80*countNodes(p))
	defer s.Close()
	s.KeepTrace = opt.KeepTrace
	env := NewEnv(s)
	b := &builder{env: env, top: p}
	r, err := b.Compile(context.Background(), p)
	if err != nil {
		o.Infra = "generated plan does not compile: " + err.Error() + " :: " + o.Sample
		return o
	}
	for i := 0; i < nHandlers; i++ {
		call.Opts = append(call.Opts, compose.WithCallbacks(env.recordingHandler(fmt.Sprintf("c%d", i), modes[i])))
	}
	var res *CallResult
	s.Go("caller0", func() { res = doCall(env, r, call) })
	kr := s.Run(80000)
	core.FinishKernel(o, s, kr, "C19")
	if o.Infra != "" || kr.Budget {
		return o
	}
	if res == nil || !res.Done {
		o.Violate("C19/hang", "the call never returned; unfinished tasks: "+strings.Join(kr.Unfinished, ",")+"\n"+stacksOf(kr.Blocked))
		return o
	}
	inScope := mr.Err == ErrNone && !mr.Unconsumed && res.Err == nil && res.Panic == nil
	if !inScope {
		o.Stat("probe.run_outside_quantifier", 1)
		if mr.Unconsumed {
			o.Stat("probe.value_without_consumer", 1)
		}
	} else {
		o.Stat("probe.run_in_scope", 1)
		if res.Stopped {
			o.Stat("probe.caller_stopped_early", 1)
		} else if Canon(res.Out) != Canon(mr.Out) {
			o.Violate("C19/result-mismatch", fmt.Sprintf("model %q, run %q", Canon(mr.Out), Canon(res.Out)))
		}
		if open := core.OpenStreams(s.Events()); len(open) > 0 {
			o.Violate("C19/stream-neither-closed-nor-drained", fmt.Sprintf("after the run: %s", strings.Join(open, "; ")))
		}
		if len(kr.Blocked) > 0 {
			o.Violate("C19/left-behind:"+topFrame(kr.Blocked[0]), fmt.Sprintf("%d goroutine(s) created by the run are still blocked after the output stream was %s; unfinished harness tasks: %v\n%s",
				len(kr.Blocked), map[bool]string{true: "closed early", false: "read to the end"}[res.Stopped], kr.Unfinished, stacksOf(kr.Blocked)))
		}
	}
	foldEnv(o, env)
	o.Stat("mode."+modeNames[p.Mode], 1)
	return o
}

// runC09: concurrent callers of one compiled runnable are isolated.
func runC09(t *kernel.Tape, opt core.Opts) *core.Outcome {
	if alt := core.AltRunners["C09"]; alt != nil && t.Plan(10) < 3 {
		return alt(t, opt) // the bundled ReAct agent called by several tasks at once
	}
	o := &core.Outcome{}
	g := GenOpts{Modes: []int{ModePregel, ModeDAG, ModeWorkflow}, MaxNodes: 6, Depth: 2, Cycles: true, State: 60,
		Streams: t.PlanBool(60), Handlers: true, Yields: 2, Parallelism: t.PlanBool(40)}
	p := Generate(t, g)
	maybeAnyTypes(t, p)
	maybeInputKeys(t, p)
	nc := 2 + t.Plan(3)
	calls := make([]*Call, nc)
	models := make([]*ModelResult, nc)
	var sb strings.Builder
	for i := range calls {
		in := M{"in": fmt.Sprintf("x%d", i)}
		calls[i] = &Call{Tag: fmt.Sprintf("r%d", i), Paradigm: t.Plan(4), In: in, InCut: t.Plan(3), InPipe: t.PlanBool(50), StopAfter: -1}
		models[i] = RunModelOffset(p, in, i) // every caller takes different branch decisions
		fmt.Fprintf(&sb, "%s ", paradigmNames[calls[i].Paradigm])
	}
	withHandlers := t.PlanBool(60)
	o.Sample = p.Render() + fmt.Sprintf(" callers=%d [%s] handlers=%v", nc, sb.String(), withHandlers)
	o.PlanHash = planHash(o.Sample)

	s := kernel.New(t, 80*countNodes(p)*nc)
	defer s.Close()
	s.KeepTrace = opt.KeepTrace
	env := NewEnv(s)
	for i, c := range calls {
		env.ScriptOffset[c.Tag] = i
	}
	b := &builder{env: env, top: p}
	r, err := b.Compile(context.Background(), p)
	if err != nil {
		o.Infra = "generated plan does not compile: " + err.Error() + " :: " + o.Sample
		return o
	}
	results := make([]*CallResult, nc)
	for i := range calls {
		i := i
		c := calls[i]
		c.Opts = append(c.Opts, compose.WithLambdaOption(lopt{Tag: c.Tag}))
		if withHandlers {
			c.Opts = append(c.Opts, compose.WithCallbacks(env.recordingHandler("own:"+c.Tag, 0)))
		}
		s.Go(fmt.Sprintf("caller%d", i), func() { results[i] = doCall(env, r, c) })
	}
	kr := s.Run(200000)
	core.FinishKernel(o, s, kr, "C09")
	if o.Infra != "" || kr.Budget {
		return o
	}
	for i, res := range results {
		if res == nil || !res.Done {
			o.Violate("C09/hang", fmt.Sprintf("caller %d never returned; unfinished tasks: %s\n%s", i, strings.Join(kr.Unfinished, ","), stacksOf(kr.Blocked)))
			return o
		}
		// each run returns what it would return alone
		checkAgainstModel(o, "C09", p, env, calls[i], res, models[i], execsComparable(p, models[i]))
	}
	// callbacks: a caller's handler only ever sees its own run
	for _, ev := range env.Callbacks.Events {
		if strings.HasPrefix(ev.Handler, "own:") && ev.Tag != ev.Handler[4:] {
			o.Violate("C09/callback-context-leak", fmt.Sprintf("the handler passed by %s was invoked (%s %s) in the context of run %s", ev.Handler[4:], ev.Timing, ev.Name, ev.Tag))
		}
	}
	for i, c := range calls {
		if models[i].Err == ErrNone {
			checkState(o, p, env, models[i], []string{c.Tag})
		}
	}
	foldEnv(o, env)
	o.Stat("callers", nc)
	o.Stat("mode."+modeNames[p.Mode], 1)
	return o
}

func tagsOf(cs []*Call) []string {
	var out []string
	for _, c := range cs {
		out = append(out, c.Tag)
	}
	return out
}

var _ = callbacks.InitCallbackHandlers

func init() {
	core.Register(&core.Profile{
		RaceQuick: 200, RaceThorough: 3000, ID: "C19", Engine: "graphsim", Quick: 2500, Thorough: 60000, ThoroughSeeds: 3, Run: runC19,
		Rule: "each run draws a plan (all-predecessor graph, workflow or Pregel; stream producers as pipe tasks or arrays, lazily reading transforms, stream branches reading a prefix, stream state handlers, mappings), a Stream or Transform call whose caller reads to the end or closes after 0-3 chunks, 0-2 callback handlers that read all / one chunk / nothing of their copies, and one schedule; after the call the kernel keeps scheduling until nothing can run; oracle (only for runs the reference model puts inside the quantifier: result, every value has a consumer): no goroutine created by the run is still alive, no producer task is still blocked in Send; some handlers decline the stream timings (callbacks.TimingChecker)",
		Real: graphReal, Stub: graphStub,
		Faults: []string{"caller stops reading at a drawn chunk", "handlers closing their copies", "branch reads a prefix", "schedule perturbation"},
	})
	core.Register(&core.Profile{
		ID: "C09", Engine: "graphsim", Quick: 1000, Thorough: 40000, ThoroughSeeds: 3, Run: runC09, RaceQuick: 300, RaceThorough: 6000,
		Rule: "each run draws a plan (all modes, state, branches, nested graphs), 2-4 caller tasks with distinct inputs calling the one compiled object concurrently in drawn paradigms with their own lambda option and callback handler, and one schedule interleaving all of them; oracle: every call equals the reference model for its own input, state objects are per run (fresh, never touched by another run's handlers), options and callback handlers only ever see their own run; in the ReAct scenario the callers share one input slice with spare capacity in half of the runs and the tools tag their answers with the caller; 300/6000 additional race-detector runs (Mode B)",
		Real: graphReal, Stub: graphStub,
		Faults: []string{"interleaving of several runs", "mixed paradigms"},
	})
}
