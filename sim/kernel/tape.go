// Package kernel is the deterministic simulation kernel: one tape decides the plan
// and every scheduling choice; real goroutines are parked at hook points and released
// one at a time once the process is quiescent.
package kernel

// Tape is the single source of every choice of a run. It has two recorded streams:
// P (plan draws, made before the run starts) and S (schedule draws: scheduling picks,
// ready-poll orders, map-order permutations, made while the run proceeds).
// In search mode both are produced by a SplitMix64 generator keyed by (seed, run) and
// recorded; in replay mode the recorded values are returned (0 when exhausted).
type Tape struct {
	Replay bool
	P, S   []int
	pi, si int
	rngP   uint64
	rngS   uint64
	// Overrun counts draws past the end of a replayed stream (informational).
	Overrun int
}

func mix(x uint64) uint64 {
	x += 0x9e3779b97f4a7c15
	x = (x ^ (x >> 30)) * 0xbf58476d1ce4e5b9
	x = (x ^ (x >> 27)) * 0x94d049bb133111eb
	return x ^ (x >> 31)
}

// NewSearchTape returns a recording tape for (seed, run).
func NewSearchTape(seed int64, run int) *Tape {
	k := mix(uint64(seed)) ^ mix(uint64(run)*0x632be59bd9b4e019+1)
	return &Tape{rngP: mix(k ^ 0x5050), rngS: mix(k ^ 0x5353)}
}

// NewReplayTape returns a tape that replays recorded draws.
func NewReplayTape(p, s []int) *Tape {
	return &Tape{Replay: true, P: append([]int(nil), p...), S: append([]int(nil), s...)}
}

// reserve gives the recorded streams a fixed capacity so that appends by different
// goroutines never grow them (see the note on kernel memory in Sim).
func (t *Tape) reserve() {
	if !t.Replay {
		if cap(t.P) < 1<<14 {
			t.P = append(make([]int, 0, 1<<14), t.P...)
		}
		if cap(t.S) < 1<<17 {
			t.S = append(make([]int, 0, 1<<17), t.S...)
		}
	}
}

//go:norace
func next(state *uint64) uint64 {
	*state += 0x9e3779b97f4a7c15
	z := *state
	z = (z ^ (z >> 30)) * 0xbf58476d1ce4e5b9
	z = (z ^ (z >> 27)) * 0x94d049bb133111eb
	return z ^ (z >> 31)
}

// Plan draws a plan value in [0,n).
//
//go:norace
func (t *Tape) Plan(n int) int {
	if n <= 1 {
		return 0
	}
	if t.Replay {
		if t.pi >= len(t.P) {
			t.Overrun++
			return 0
		}
		v := t.P[t.pi]
		t.pi++
		if v < 0 {
			v = -v
		}
		return v % n
	}
	v := int(next(&t.rngP) % uint64(n))
	t.P = append(t.P, v)
	return v
}

// PlanBool draws a boolean that is true with probability pct/100 (false on a zero tape).
func (t *Tape) PlanBool(pct int) bool {
	return t.Plan(100) >= 100-pct
}

// PlanRange draws in [lo,hi].
func (t *Tape) PlanRange(lo, hi int) int {
	if hi <= lo {
		return lo
	}
	return lo + t.Plan(hi-lo+1)
}

// schedRaw returns 64 random bits from the schedule generator (search mode only).
//
//go:norace
func (t *Tape) schedRaw() uint64 { return next(&t.rngS) }

// Sched returns the next schedule value in [0,n): in replay mode the recorded one, in
// search mode compute(raw) (policy-mapped) which is then recorded.
//
//go:norace
func (t *Tape) Sched(n int, compute func(raw uint64) int) int {
	if n <= 1 {
		return 0
	}
	if t.Replay {
		if t.si >= len(t.S) {
			t.Overrun++
			return 0
		}
		v := t.S[t.si]
		t.si++
		if v < 0 {
			v = -v
		}
		return v % n
	}
	var v int
	raw := t.schedRaw()
	if compute != nil {
		v = compute(raw)
	} else {
		v = int(raw % uint64(n))
	}
	if v < 0 || v >= n {
		v = 0
	}
	if len(t.S) < cap(t.S) {
		t.S = append(t.S, v)
	}
	return v
}

// Used reports how many recorded values of each stream were consumed.
func (t *Tape) Used() (p, s int) {
	if t.Replay {
		return t.pi, t.si
	}
	return len(t.P), len(t.S)
}
