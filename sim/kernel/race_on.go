//go:build race

package kernel

import "runtime"

// RaceBuild reports whether the binary was built with the race detector (Mode B: the
// kernel's own synchronisation is hidden from the detector, so the only happens-before
// edges it knows are the program's own).
const RaceBuild = true

func raceOff() { runtime.RaceDisable() }
func raceOn()  { runtime.RaceEnable() }
