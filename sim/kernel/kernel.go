package kernel

import (
	"bytes"
	"crypto/sha256"
	"encoding/hex"
	"fmt"
	"os"
	"runtime"
	"sort"
	"strconv"
	"strings"
	"sync/atomic"
	"syscall"
	"time"

	"github.com/cloudwego/eino/schema"
)

// spin is the kernel's own lock. It is a spin lock on purpose: a goroutine waiting for
// it shows as running/runnable in a goroutine snapshot, never as "blocked", so kernel
// contention can never be mistaken for quiescence.
type spin struct{ v int32 }

//go:norace
func (l *spin) Lock() {
	for !atomic.CompareAndSwapInt32(&l.v, 0, 1) {
		runtime.Gosched()
	}
}

//go:norace
func (l *spin) Unlock() { atomic.StoreInt32(&l.v, 0) }

type task struct {
	name    string
	id      uint64
	depth   int
	spawnN  int
	harness bool
	site    string
	ch      chan struct{}
	prio    int64
}

// Event is a framework event reported through verifhook.Ev.
type Event struct {
	Step   int
	Task   string
	Site   string
	Detail string
	Obj    int // identity of the object the event is about (first-seen order), 0 if none
}

// GInfo describes one goroutine of a snapshot.
type GInfo struct {
	ID    uint64
	State string
	Top   string
	Stack string
}

// Policy kinds.
const (
	PolUniform = iota
	PolSticky
	PolPCT
	PolStarve
	numPolicies
)

var policyNames = []string{"uniform", "sticky", "pct", "starve"}

// Result is what the kernel reports about one run.
type Result struct {
	Steps      int
	Choices    int // steps with >= 2 candidates
	MaxLive    int
	Policy     string
	Deadlock   bool    // quiescent, nobody parked, a harness task unfinished
	Blocked    []GInfo // goroutines created during the run and still alive at the end
	Unfinished []string
	Budget     bool   // step budget exceeded
	WallBudget bool   // ... by its wall-clock part (depends on the load of the machine)
	Stuck      string // non-empty: process never became quiescent (infrastructure)
	Hazards    []string
	TraceHash  string
	SchedSig   string
	PollSeam   int
	PollReal   int
	Orders     int
	Snapshots  int
}

// Sim is one simulated run.
type Sim struct {
	joinWord int64 // see taskDone
	T        *Tape
	mu       spin

	// Memory shared between tasks and the scheduler lives in slices that never grow (fixed
	// capacity) and is only touched by //go:norace functions: in the race-detector build the
	// kernel must neither report its own accesses nor order the tasks' accesses.
	tasks    []*task
	parked   []*task
	pending  []string
	live     []string // unfinished harness tasks
	baseline map[uint64]bool
	schedID  uint64
	schedTid int
	current  *task
	lastName string
	running  bool

	policy    int
	stickyPct int
	pctSalt   uint64
	pctChange map[int]bool
	pctLow    int64
	starveAt  int
	starved   string

	trace  []string
	objs   []any
	events []Event
	log    []string
	buf    []byte
	res    Result
	logOn  bool
	hsum   [32]byte

	// KeepTrace makes the kernel keep the readable schedule (name@site per step).
	KeepTrace bool
	// StuckTimeout bounds the wait for quiescence of a single step.
	StuckTimeout time.Duration
	// NoThreadFilter disables the /proc pre-filter (self-test).
	NoThreadFilter bool
	// WallBudget stops a run that does not end (second part of the step budget).
	WallBudget time.Duration
}

var active atomic.Value // *Sim

var debugSteps = os.Getenv("VSIM_DEBUG_CANDS") != ""

func cur() *Sim {
	v := active.Load()
	if v == nil {
		return nil
	}
	return v.(*Sim)
}

func init() {
	schema.VerifInstall(hookY, hookSpawn, hookEnter, hookExit, hookEv, hookPoll, hookOrder)
	schema.VerifInstallEvP(hookEvP)
}

func goid() uint64 {
	var b [40]byte
	n := runtime.Stack(b[:], false)
	x := b[len("goroutine "):n]
	i := bytes.IndexByte(x, ' ')
	if i < 0 {
		return 0
	}
	id, _ := strconv.ParseUint(string(x[:i]), 10, 64)
	return id
}

// New creates the simulator for one run and installs it. Policy parameters are drawn
// from the plan stream of the tape.
func New(t *Tape, estSteps int) *Sim {
	s := &Sim{T: t, buf: make([]byte, 1<<20), StuckTimeout: 20 * time.Second,
		tasks: make([]*task, 0, 4096), parked: make([]*task, 0, 4096), pending: make([]string, 0, 16), live: make([]string, 0, 4096),
		objs: make([]any, 0, 1<<14), events: make([]Event, 0, 1<<17), log: make([]string, 0, 1<<15), trace: make([]string, 0, 1<<16)}
	s.res.Hazards = make([]string, 0, 64)
	t.reserve()
	s.policy = t.Plan(numPolicies)
	s.stickyPct = 50 + 10*t.Plan(5)
	s.pctSalt = uint64(t.Plan(1 << 30))
	s.pctChange = map[int]bool{}
	if estSteps < 8 {
		estSteps = 8
	}
	d := 1 + t.Plan(4)
	for i := 0; i < d; i++ {
		s.pctChange[t.Plan(estSteps)] = true
	}
	s.starveAt = t.Plan(estSteps / 2)
	s.res.Policy = policyNames[s.policy]
	active.Store(s)
	return s
}

// Close uninstalls the simulator.
func (s *Sim) Close() { active.Store((*Sim)(nil)) }

// findTask, addTask, delTask: the task table (caller holds s.mu).
//
//go:norace
func (s *Sim) findTask(id uint64) *task {
	for _, t := range s.tasks {
		if t.id == id {
			return t
		}
	}
	return nil
}

//go:norace
func (s *Sim) addTask(t *task) {
	if len(s.tasks) < cap(s.tasks) {
		s.tasks = append(s.tasks, t)
	}
}

//go:norace
func (s *Sim) delTask(id uint64) {
	for i, t := range s.tasks {
		if t.id == id {
			s.tasks[i] = s.tasks[len(s.tasks)-1]
			s.tasks = s.tasks[:len(s.tasks)-1]
			return
		}
	}
}

//go:norace
func (s *Sim) hazard(msg string) {
	if len(s.res.Hazards) < cap(s.res.Hazards) {
		s.res.Hazards = append(s.res.Hazards, msg)
	}
}

//go:norace
func (s *Sim) me() *task {
	id := goid()
	s.mu.Lock()
	t := s.findTask(id)
	s.mu.Unlock()
	return t
}

//go:norace
func (s *Sim) park(t *task, site string) {
	ch := make(chan struct{})
	s.mu.Lock()
	t.site = site
	t.ch = ch
	if len(s.parked) < cap(s.parked) {
		s.parked = append(s.parked, t)
	}
	s.mu.Unlock()
	<-ch
}

// Go starts a harness task. It may be called before Run or from a running task.
//
//go:norace
func (s *Sim) Go(name string, f func()) {
	raceOff()
	s.mu.Lock()
	for _, n := range s.live {
		if n == name {
			s.hazard("duplicate task name " + name)
		}
	}
	if len(s.live) < cap(s.live) {
		s.live = append(s.live, name)
	}
	s.mu.Unlock()
	started := make(chan struct{})
	raceOn() // the go statement itself is a real happens-before edge (creator -> task)
	go s.taskMain(name, started, f)
	raceOff()
	<-started
	raceOn()
}

//go:norace
func (s *Sim) taskMain(name string, started chan struct{}, f func()) {
	raceOff()
	t := &task{name: name, id: goid(), harness: true}
	s.mu.Lock()
	s.addTask(t)
	s.mu.Unlock()
	close(started)
	s.park(t, "task.start")
	raceOn()
	defer s.taskDone(name, t.id)
	f()
}

//go:norace
func (s *Sim) taskDone(name string, id uint64) {
	// visible to the race detector: everything a harness task did happens before the code
	// that runs after Run returned (which reads the results the task left behind)
	atomic.AddInt64(&s.joinWord, 1)
	raceOff()
	s.mu.Lock()
	for i, n := range s.live {
		if n == name {
			s.live[i] = s.live[len(s.live)-1]
			s.live = s.live[:len(s.live)-1]
			break
		}
	}
	s.delTask(id)
	s.mu.Unlock()
	raceOn()
}

// Yield is a harness yield point.
//
//go:norace
func (s *Sim) Yield(site string) {
	raceOff()
	defer raceOn()
	if t := s.me(); t != nil {
		s.park(t, site)
	}
}

// Name returns the task name of the calling goroutine ("" outside the simulation).
//
//go:norace
func (s *Sim) Name() string {
	raceOff()
	defer raceOn()
	if t := s.me(); t != nil {
		return t.name
	}
	return ""
}

// Step returns the number of scheduling steps made so far.
//
//go:norace
func (s *Sim) Step() int { return s.res.Steps }

// Log appends a line to the harness log (part of the trace hash). It must be called by
// the task the scheduler released, or outside Run.
//
//go:norace
func (s *Sim) Log(line string) {
	raceOff()
	defer raceOn()
	if debugSteps {
		line = "[step " + strconv.Itoa(s.res.Steps) + "] " + line
	}
	s.mu.Lock()
	if s.running {
		id := goid()
		if s.current == nil || s.current.id != id {
			s.hazard("log from a goroutine that was not released: " + line)
		}
	}
	if len(s.log) < cap(s.log) {
		s.log = append(s.log, line)
	}
	s.mu.Unlock()
}

// Logs returns the harness log.
func (s *Sim) Logs() []string { return s.log }

// Events returns the framework events.
func (s *Sim) Events() []Event { return s.events }

// Trace returns the readable schedule when KeepTrace is set.
func (s *Sim) Trace() []string { return s.trace }

// ---- hooks -------------------------------------------------------------------

//go:norace
func hookY(site string) {
	raceOff()
	defer raceOn()
	s := cur()
	if s == nil {
		return
	}
	if t := s.me(); t != nil {
		s.park(t, site)
	}
}

//go:norace
func hookSpawn(site string) {
	raceOff()
	defer raceOn()
	s := cur()
	if s == nil {
		return
	}
	t := s.me()
	if t == nil {
		return
	}
	s.park(t, site+".spawn")
	s.mu.Lock()
	t.spawnN++
	if len(s.pending) != 0 {
		s.hazard("two pending spawns")
	}
	if len(s.pending) < cap(s.pending) {
		s.pending = append(s.pending, t.name+"/"+site+"#"+strconv.Itoa(t.spawnN))
	}
	s.mu.Unlock()
}

//go:norace
func hookEnter(site string) {
	raceOff()
	defer raceOn()
	s := cur()
	if s == nil {
		return
	}
	id := goid()
	s.mu.Lock()
	t := s.findTask(id)
	if t != nil {
		t.depth++
		s.mu.Unlock()
		s.park(t, site+".enter")
		return
	}
	if len(s.pending) != 1 {
		s.mu.Unlock()
		return
	}
	t = &task{name: s.pending[0], id: id}
	s.pending = s.pending[:0]
	s.addTask(t)
	s.mu.Unlock()
	s.park(t, site+".enter")
}

//go:norace
func hookExit() {
	raceOff()
	defer raceOn()
	s := cur()
	if s == nil {
		return
	}
	id := goid()
	s.mu.Lock()
	if t := s.findTask(id); t != nil {
		if t.depth > 0 {
			t.depth--
		} else {
			s.delTask(id)
		}
	}
	s.mu.Unlock()
}

//go:norace
func hookEv(site, detail string) {
	raceOff()
	defer raceOn()
	s := cur()
	if s == nil {
		return
	}
	id := goid()
	s.mu.Lock()
	t := s.findTask(id)
	if t != nil {
		if s.current == nil || s.current.id != id {
			s.hazard("event from a goroutine that was not released: " + site)
		}
		if len(s.events) < cap(s.events) {
			s.events = append(s.events, Event{Step: s.res.Steps, Task: t.name, Site: site, Detail: detail})
		}
	}
	s.mu.Unlock()
}

//go:norace
func hookEvP(site string, p any, detail string) {
	raceOff()
	defer raceOn()
	s := cur()
	if s == nil {
		return
	}
	id := goid()
	s.mu.Lock()
	t := s.findTask(id)
	if t != nil {
		if s.current == nil || s.current.id != id {
			s.hazard("event from a goroutine that was not released: " + site)
		}
		o := 0
		for i, q := range s.objs {
			if q == p {
				o = i + 1
				break
			}
		}
		if o == 0 && len(s.objs) < cap(s.objs) {
			s.objs = append(s.objs, p)
			o = len(s.objs)
		}
		if len(s.events) < cap(s.events) {
			s.events = append(s.events, Event{Step: s.res.Steps, Task: t.name, Site: site, Detail: detail, Obj: o})
		}
	}
	s.mu.Unlock()
}

//go:norace
func (s *Sim) drawCheck(what string) bool {
	id := goid()
	s.mu.Lock()
	defer s.mu.Unlock()
	if s.findTask(id) == nil {
		return false
	}
	if s.current == nil || s.current.id != id {
		s.hazard(what + " from a goroutine that was not released")
	}
	return true
}

//go:norace
func hookPoll(n int) []int {
	raceOff()
	defer raceOn()
	s := cur()
	if s == nil || n < 2 || !s.drawCheck("poll") {
		return nil
	}
	s.mu.Lock()
	defer s.mu.Unlock()
	p := make([]int, n)
	for i := range p {
		p[i] = i
	}
	for i := n - 1; i > 0; i-- {
		j := s.T.Sched(i+1, nil)
		// j == 0 must mean "leave in place" so that a zero tape is the identity
		j = i - j
		p[i], p[j] = p[j], p[i]
	}
	s.res.PollSeam++
	return p
}

//go:norace
func hookOrder(n int, less func(i, j int) bool, swap func(i, j int)) {
	if n < 2 {
		return
	}
	// (less and swap touch the caller's data: they run with the detector fully on)
	// the canonical order is established always (also at construction time, outside a
	// run); the seeded permutation only inside a simulated run
	if less != nil {
		for i := 1; i < n; i++ {
			for j := i; j > 0 && less(j, j-1); j-- {
				swap(j, j-1)
			}
		}
	}
	raceOff()
	defer raceOn()
	s := cur()
	if s == nil || !s.drawCheck("order") {
		return
	}
	s.mu.Lock()
	defer s.mu.Unlock()
	for i := n - 1; i > 0; i-- {
		j := i - s.T.Sched(i+1, nil)
		if j != i {
			swap(i, j)
		}
	}
	s.res.Orders++
}

// ---- quiescence ----------------------------------------------------------------

func (s *Sim) snapshot() []byte {
	for {
		n := runtime.Stack(s.buf, true)
		if n < len(s.buf) {
			s.res.Snapshots++
			return s.buf[:n]
		}
		s.buf = make([]byte, 2*len(s.buf))
	}
}

var (
	gPrefix   = []byte("goroutine ")
	semPrefix = []byte("sync.runtime_Semacquire")
	sep       = []byte("\n\n")
)

// settledState reports whether a goroutine header state (and top frame) means "blocked
// in a synchronisation primitive, will not run until another goroutine acts".
func settledState(st string, top []byte) bool {
	switch st {
	case "chan receive", "chan send", "select", "select (no cases)",
		"chan receive (nil chan)", "chan send (nil chan)",
		"sync.Mutex.Lock", "sync.Cond.Wait", "sync.RWMutex.RLock", "sync.RWMutex.Lock", "sync.WaitGroup.Wait":
		return true
	case "semacquire":
		return bytes.HasPrefix(top, semPrefix)
	}
	return false
}

// scan parses a snapshot. quiet is true when every goroutine except the scheduler is
// settled. With detail, it returns every goroutine.
func (s *Sim) scan(snap []byte, detail bool) (quiet bool, infos []GInfo, why string) {
	quiet = true
	for len(snap) > 0 {
		var blk []byte
		if i := bytes.Index(snap, sep); i >= 0 {
			blk, snap = snap[:i], snap[i+2:]
		} else {
			blk, snap = snap, nil
		}
		if !bytes.HasPrefix(blk, gPrefix) {
			continue
		}
		x := blk[len(gPrefix):]
		sp := bytes.IndexByte(x, ' ')
		if sp < 0 {
			continue
		}
		id, _ := strconv.ParseUint(string(x[:sp]), 10, 64)
		lb, rb := bytes.IndexByte(x, '['), bytes.IndexByte(x, ']')
		if lb < 0 || rb < lb {
			continue
		}
		st := x[lb+1 : rb]
		if c := bytes.IndexByte(st, ','); c >= 0 {
			st = st[:c]
		}
		var top []byte
		if nl := bytes.IndexByte(blk, '\n'); nl >= 0 {
			top = blk[nl+1:]
			if e := bytes.IndexByte(top, '\n'); e >= 0 {
				top = top[:e]
			}
		}
		if id != s.schedID {
			if !settledState(string(st), top) {
				quiet = false
				if why == "" {
					why = fmt.Sprintf("goroutine %d [%s] %s", id, st, top)
				}
				if !detail {
					return false, nil, why
				}
			}
		}
		if detail {
			infos = append(infos, GInfo{ID: id, State: string(st), Top: string(top), Stack: string(blk)})
		}
	}
	return quiet, infos, why
}

func gettid() int { return syscall.Gettid() }

// othersAsleep is a cheap pre-filter: true when every other OS thread of the process is
// sleeping. It is not authoritative (a runnable goroutine may have no thread yet).
func (s *Sim) othersAsleep() bool {
	d, err := os.Open("/proc/self/task")
	if err != nil {
		return true
	}
	names, _ := d.Readdirnames(-1)
	d.Close()
	var b [512]byte
	for _, n := range names {
		tid, _ := strconv.Atoi(n)
		if tid == s.schedTid {
			continue
		}
		fd, err := syscall.Open("/proc/self/task/"+n+"/stat", syscall.O_RDONLY, 0)
		if err != nil {
			continue
		}
		k, _ := syscall.Read(fd, b[:])
		syscall.Close(fd)
		if k <= 0 {
			continue
		}
		// pid (comm) S ...
		i := bytes.LastIndexByte(b[:k], ')')
		if i < 0 || i+2 >= k {
			continue
		}
		if c := b[i+2]; c != 'S' && c != 'I' {
			return false
		}
	}
	return true
}

func (s *Sim) waitQuiescent() (ok bool, why string) {
	deadline := time.Now().Add(s.StuckTimeout)
	spins := 0
	for {
		if s.NoThreadFilter || s.othersAsleep() {
			q, _, w := s.scan(s.snapshot(), false)
			if q {
				return true, ""
			}
			why = w
		}
		spins++
		if spins < 50 {
			runtime.Gosched()
		} else {
			time.Sleep(20 * time.Microsecond)
			if spins%512 == 0 && time.Now().After(deadline) {
				_, infos, w := s.scan(s.snapshot(), true)
				if w != "" {
					why = w
				}
				var sb strings.Builder
				sb.WriteString(why + "\n")
				for _, g := range infos {
					if g.ID != s.schedID && !s.baseline[g.ID] {
						sb.WriteString(g.Stack + "\n\n")
					}
				}
				return false, sb.String()
			}
		}
	}
}

// ---- scheduling ----------------------------------------------------------------

//go:norace
func (s *Sim) prio(t *task) int64 {
	if t.prio == 0 {
		h := mix(s.pctSalt ^ hashStr(t.name))
		t.prio = int64(h>>2) | 1
	}
	return t.prio
}

func hashStr(x string) uint64 {
	var h uint64 = 1469598103934665603
	for i := 0; i < len(x); i++ {
		h ^= uint64(x[i])
		h *= 1099511628211
	}
	return h
}

// pick chooses among the sorted candidates (last-run task first, then by name).
//
//go:norace
func (s *Sim) pick(c []*task) int {
	n := len(c)
	step := s.res.Steps
	return s.T.Sched(n, func(raw uint64) int { return s.policyPick(c, step, raw) })
}

//go:norace
func (s *Sim) policyPick(c []*task, step int, raw uint64) int {
	n := len(c)
	switch s.policy {
	case PolSticky:
		if c[0].name == s.lastName && int(raw>>40)%100 < s.stickyPct {
			return 0
		}
		return int(raw % uint64(n))
	case PolPCT:
		best := 0
		for i := 1; i < n; i++ {
			if s.prio(c[i]) > s.prio(c[best]) {
				best = i
			}
		}
		if s.pctChange[step] {
			s.pctLow--
			c[best].prio = s.pctLow
		}
		return best
	case PolStarve:
		k := int(raw % uint64(n))
		if step == s.starveAt {
			s.starved = c[k].name
		}
		if s.starved != "" && c[k].name == s.starved {
			for off := 1; off < n; off++ {
				if j := (k + off) % n; c[j].name != s.starved {
					return j
				}
			}
		}
		return k
	}
	return int(raw % uint64(n))
}

// Run drives the simulation until no task is parked and the process is quiescent, or
// the step budget is exceeded. It must be called on the goroutine that created the Sim.
//
//go:norace
func (s *Sim) Run(maxSteps int) *Result {
	runtime.LockOSThread()
	defer runtime.UnlockOSThread()
	raceOff() // the scheduler goroutine only ever does kernel work
	defer func() {
		raceOn()
		atomic.LoadInt64(&s.joinWord)
	}()
	s.schedID = goid()
	s.schedTid = gettid()
	// baseline: goroutines that existed before the run and are not tasks of this run.
	_, infos, _ := s.scan(s.snapshot(), true)
	s.mu.Lock()
	s.baseline = map[uint64]bool{}
	for _, g := range infos {
		if s.findTask(g.ID) == nil {
			s.baseline[g.ID] = true
		}
	}
	s.running = true
	s.mu.Unlock()
	h := sha256.New()
	sig := sha256.New()
	runStart := time.Now()
	if s.WallBudget == 0 {
		s.WallBudget = 40 * time.Second
	}
	for {
		ok, why := s.waitQuiescent()
		if !ok {
			s.res.Stuck = why
			break
		}
		s.mu.Lock()
		s.current = nil
		n := len(s.parked)
		if n == 0 {
			if len(s.live) > 0 {
				s.res.Deadlock = true
				s.res.Unfinished = append([]string(nil), s.live...)
				sort.Strings(s.res.Unfinished)
			}
			s.mu.Unlock()
			break
		}
		if s.res.Steps >= maxSteps || (s.res.Steps&255 == 0 && time.Since(runStart) > s.WallBudget) {
			// (the wall-clock part only matters for runs that pile up goroutines and steps
			// without end; ordinary runs take milliseconds)
			s.res.Budget = true
			s.res.WallBudget = s.res.Steps < maxSteps
			s.mu.Unlock()
			break
		}
		c := s.parked
		for i := 1; i < n; i++ { // insertion sort by name (few candidates)
			for j := i; j > 0 && c[j].name < c[j-1].name; j-- {
				c[j], c[j-1] = c[j-1], c[j]
			}
		}
		for i := 1; i < n; i++ {
			if c[i].name == c[i-1].name {
				s.hazard("duplicate parked name " + c[i].name)
			}
		}
		for i := 0; i < n; i++ {
			if c[i].name == s.lastName {
				t := c[i]
				copy(c[1:i+1], c[:i])
				c[0] = t
				break
			}
		}
		if len(s.tasks) > s.res.MaxLive {
			s.res.MaxLive = len(s.tasks)
		}
		k := 0
		if n > 1 {
			s.res.Choices++
			k = s.pick(c)
		}
		t := c[k]
		copy(c[k:], c[k+1:])
		s.parked = c[:n-1]
		s.current = t
		s.lastName = t.name
		s.res.Steps++
		line := t.name + "@" + t.site
		if s.KeepTrace && os.Getenv("VSIM_DEBUG_CANDS") != "" {
			line += " [" + strconv.Itoa(n) + ":"
			for _, x := range c {
				line += x.name + "@" + x.site + ","
			}
			line += t.name + "]"
		}
		h.Write([]byte(line))
		h.Write([]byte{'\n'})
		if n > 1 {
			sig.Write([]byte(strconv.Itoa(k) + "/" + strconv.Itoa(n) + ";"))
		}
		if s.KeepTrace && len(s.trace) < cap(s.trace) {
			s.trace = append(s.trace, line)
		}
		ch := t.ch
		s.mu.Unlock()
		close(ch)
	}
	s.mu.Lock()
	s.running = false
	s.current = nil
	s.mu.Unlock()
	// whatever was created during the run and still exists is reported
	_, infos, _ = s.scan(s.snapshot(), true)
	for _, g := range infos {
		if g.ID == s.schedID || s.baseline[g.ID] {
			continue
		}
		s.res.Blocked = append(s.res.Blocked, g)
	}
	for _, e := range s.events {
		h.Write([]byte("E" + strconv.Itoa(e.Step) + "|" + e.Task + "|" + e.Site + "|" + e.Detail + "|" + strconv.Itoa(e.Obj) + "\n"))
	}
	for _, l := range s.log {
		h.Write([]byte(l))
		h.Write([]byte{'\n'})
	}
	s.res.TraceHash = hex.EncodeToString(h.Sum(nil)[:8])
	s.res.SchedSig = hex.EncodeToString(sig.Sum(nil)[:8])
	return &s.res
}

// ParkedSites lists "name@site" of tasks still parked (after a budget stop).
//
//go:norace
func (s *Sim) ParkedSites() []string {
	var out []string
	for _, t := range s.parked {
		out = append(out, t.name+"@"+t.site)
	}
	sort.Strings(out)
	return out
}
