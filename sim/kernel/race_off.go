//go:build !race

package kernel

const RaceBuild = false

func raceOff() {}
func raceOn()  {}
